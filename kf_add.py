#!/usr/bin/env python3
"""usage: kf_add.py <id> <property> <status> <commit|-> <rule-regex> <cls-regex> <what...>"""
import json, sys
i, prop, status, commit, rule, cls = sys.argv[1:7]
what = " ".join(sys.argv[7:])
k = json.load(open('/verif/known_findings.json'))
k['findings'] = [f for f in k['findings'] if f['id'] != i]
e = {"id": i, "status": status, "property": prop, "signature": {"rule": rule, "cls": cls}}
if commit != '-':
    e["commit"] = commit
    what = f"fixed: property={prop} {commit} {what}"
e["what"] = what
k['findings'].append(e)
json.dump(k, open('/verif/known_findings.json', 'w'), indent=1)
