#!/usr/bin/env python3
"""Regenerates MANIFEST.json from checks_table.PROPS (single source of truth for what is claimed)."""
import json, subprocess
from checks_table import PROPS, TEXT

ALL = ["C%02d" % i for i in range(1, 21)]
hooks = subprocess.run(["git", "-C", "/repo", "log", "--format=%H %s"], capture_output=True, text=True).stdout
hook_commits = [l.split()[0] for l in hooks.splitlines() if "verif hooks" in l]

checks = []
for pid in ALL:
    if pid not in PROPS:
        continue
    t = TEXT[pid]
    checks.append({
        "property_id": pid,
        "quick_cmd": f"./check {pid} --tier quick",
        "thorough_cmd": f"./check {pid} --tier thorough",
        "evidence_file": f"/verif/evidence/{pid}.json",
        "replay_cmd_template": f"./check {pid} --replay {{path}}",
        "engine": "tla-trace",
        "level_claimed": {"category": "model_checking", "text": t["text"], "design_ref": t.get("design_ref", "DESIGN.md section 5")},
        "level_note": t["note"],
        "technique": t["technique"],
    })

m = {
    "version": 1,
    "setup_cmd": "./check setup",
    "hooks": {
        "guard": "simple_dns_verif",
        "enable": "RUSTFLAGS='--cfg simple_dns_verif' (set in /verif/harness/.cargo/config.toml; the harness has path dependencies on /repo/simple-dns and /repo/simple-mdns)",
        "baseline_off_cmd": "cd /repo && cargo nextest run --workspace --no-fail-fast --test-threads 8 --offline || cargo test --workspace --no-fail-fast --offline",
        "source_commits": hook_commits,
        "add_only": True,
    },
    "engines": [{
        "name": "tla-trace",
        "path": "/verif/check",
        "serves_properties": [c["property_id"] for c in checks],
        "kind_free_text": "explicit TLA+ specification (spec/*.tla) model-checked with TLC; TLC-generated cases replayed into the real crates by the Rust harness; recorded traces of the real crates validated against the trace specification (spec/Trace.tla) by TLC",
    }],
    "checks": checks,
    "not_applicable": [{"property_id": p, "reason": "check not built yet in this round (see DESIGN.md section 12 for the order of work); no claim is made"} for p in ALL if p not in PROPS],
    "notes": "All verdicts come from TLC evaluating the trace specification over events recorded from the real code; see DESIGN.md.",
}
json.dump(m, open("MANIFEST.json", "w"), indent=1)
print("claimed:", [c["property_id"] for c in checks])
