//! End-to-end runs of the real ServiceDiscovery (sync and tokio flavours) on the loopback multicast
//! group: the behaviours of the protocol model (spec/Discovery.tla) observed on the implementation.
//! Each attempt starts 2-3 peers advertising instances of one (unique) service, lets them find each
//! other, removes one of them and watches the others' view.  Every observation (what
//! get_known_services() of a peer shows, with a millisecond timestamp) goes into the event; the trace
//! specification evaluates the model's invariants on them (exactness at every observation; the
//! timing-dependent ones -- found within two seconds, gone after the goodbye, still known otherwise --
//! fail only when every attempt of the scenario fails).
use crate::mdns::{instance_json, instance_of};
use crate::util::*;
use rand::rngs::StdRng;
use rand::{Rng, SeedableRng};
use serde_json::{json, Value};
use simple_mdns::{InstanceInformation, NetworkScope};
use std::time::{Duration, Instant};

enum Peer {
    Sync(simple_mdns::sync_discovery::ServiceDiscovery),
    Async(simple_mdns::async_discovery::ServiceDiscovery),
}

fn known(p: &Peer, rt: &tokio::runtime::Runtime) -> Result<Vec<Value>, String> {
    guarded(|| match p {
        Peer::Sync(d) => d.get_known_services().iter().map(instance_json).collect::<Vec<_>>(),
        Peer::Async(d) => rt.block_on(d.get_known_services()).iter().map(instance_json).collect::<Vec<_>>(),
    })
}

fn random_instance(rng: &mut StdRng, name: &str) -> Value {
    let ips_pool = [
        json!([4, 10, 0, 0, 1]), json!([4, 10, 0, 0, 2]), json!([4, 192, 168, 7, 250]),
        json!([6, 254, 128, 0, 0, 0, 0, 0, 0, 0, 0, 0, 0, 0, 0, 0, 1]), json!([6, 32, 1, 13, 184, 0, 0, 0, 0, 0, 0, 0, 0, 0, 0, 0, 9]),
    ];
    let nips = rng.gen_range(1..=3);
    let mut ips: Vec<Value> = vec![];
    while ips.len() < nips {
        let c = ips_pool[rng.gen_range(0..ips_pool.len())].clone();
        if !ips.contains(&c) {
            ips.push(c);
        }
    }
    let mut ports: Vec<u16> = vec![[80u16, 443, 8080, 65535, 0][rng.gen_range(0..5)]];
    if rng.gen_bool(0.4) {
        let p = [81u16, 8443, 1][rng.gen_range(0..3)];
        ports.push(p);
    }
    let cps = |s: &str| s.chars().map(|c| c as u32).collect::<Vec<u32>>();
    let mut attrs: Vec<Value> = vec![];
    for k in ["path", "v", "flag"] {
        match rng.gen_range(0..4) {
            0 => attrs.push(json!([cps(k), ["none"]])),
            1 => attrs.push(json!([cps(k), ["some", cps("")]])),
            2 => attrs.push(json!([cps(k), ["some", cps("x=y/\u{e9}")]])),
            _ => {}
        }
    }
    json!({"name": cps(name), "ips": ips, "ports": ports, "attrs": attrs})
}

fn attempt(infos: &[Value], service: &str, ttl: u32, asynchronous: bool, remove: usize, rt: &tokio::runtime::Runtime) -> Result<Vec<Value>, String> {
    let t0 = Instant::now();
    let ms = |t: Instant| t.duration_since(t0).as_millis() as u64;
    let mut tl: Vec<Value> = vec![];
    let mut peers: Vec<Peer> = vec![];
    let _enter = rt.enter();
    for (i, inf) in infos.iter().enumerate() {
        let info: InstanceInformation = instance_of(inf);
        let p = guarded(|| -> Result<Peer, String> {
            Ok(if asynchronous {
                Peer::Async(simple_mdns::async_discovery::ServiceDiscovery::new_with_scope(info, service, ttl, None, NetworkScope::V4).map_err(|e| e.to_string())?)
            } else {
                Peer::Sync(simple_mdns::sync_discovery::ServiceDiscovery::new_with_scope(info, service, ttl, None, NetworkScope::V4).map_err(|e| e.to_string())?)
            })
        });
        match p {
            Ok(Ok(p)) => peers.push(p),
            Ok(Err(why)) => return Err(why), // no multicast in this environment: inconclusive
            Err(at) => {
                tl.push(json!([ms(Instant::now()), "panic", i, at]));
                return Ok(tl);
            }
        }
        tl.push(json!([ms(Instant::now()), "start", i, []]));
        std::thread::sleep(Duration::from_millis(400));
    }
    let snap_all = |tl: &mut Vec<Value>, peers: &Vec<Peer>| {
        for (i, p) in peers.iter().enumerate() {
            let t = ms(Instant::now());
            match known(p, rt) {
                Ok(v) => tl.push(json!([t, "snap", i, v])),
                Err(at) => tl.push(json!([t, "panic", i, at])),
            }
        }
    };
    // observe every 250 ms for 2.5 s
    for _ in 0..10 {
        std::thread::sleep(Duration::from_millis(250));
        snap_all(&mut tl, &peers);
    }
    // one peer leaves
    let t = ms(Instant::now());
    let r = guarded(|| match &mut peers[remove] {
        Peer::Sync(d) => d.remove_service_from_discovery(),
        Peer::Async(d) => rt.block_on(d.remove_service_from_discovery()),
    });
    match r {
        Ok(()) => tl.push(json!([t, "remove", remove, []])),
        Err(at) => tl.push(json!([t, "panic", remove, at])),
    }
    for _ in 0..9 {
        std::thread::sleep(Duration::from_millis(500));
        snap_all(&mut tl, &peers);
    }
    // the services' threads / tasks cannot be stopped; they keep running until the process exits
    std::mem::forget(peers);
    Ok(tl)
}

/// A peer running another implementation, played by the harness on a plain socket: it announces an instance of
/// the service a real ServiceDiscovery watches, and later withdraws it (TTL 0, or the cache-flush bit this library
/// treats as a goodbye).  Its RESPONSES also carry a question section (legal: RFC 6762 section 6 says the questions
/// of a response are ignored, not the response) -- in the announcement of every other attempt and in every goodbye.
fn foreign(asynchronous: bool, rt: &tokio::runtime::Runtime) -> Result<Value, String> {
    use simple_dns::rdata::RData;
    use simple_dns::{Name, Packet, Question, CLASS, QTYPE};
    let tag = format!("{}{}", std::process::id(), if asynchronous { "a" } else { "s" });
    let service = format!("_f{tag}._tcp.local");
    let own = InstanceInformation::new(format!("own{tag}")).with_ip_address(std::net::Ipv4Addr::new(10, 8, 8, 8).into()).with_port(1);
    let _enter = rt.enter();
    let peer = guarded(|| -> Result<Peer, String> {
        Ok(if asynchronous {
            Peer::Async(simple_mdns::async_discovery::ServiceDiscovery::new_with_scope(own, &service, 60, None, NetworkScope::V4).map_err(|e| e.to_string())?)
        } else {
            Peer::Sync(simple_mdns::sync_discovery::ServiceDiscovery::new_with_scope(own, &service, 60, None, NetworkScope::V4).map_err(|e| e.to_string())?)
        })
    });
    let peer = match peer {
        Ok(Ok(p)) => p,
        Ok(Err(why)) => return Err(why),
        Err(at) => return Err(format!("panic at start: {at}")),
    };
    std::thread::sleep(Duration::from_millis(500));
    let tx = std::net::UdpSocket::bind("0.0.0.0:0").map_err(|e| e.to_string())?;
    let listed = |ghost: &str| -> Result<bool, String> {
        known(&peer, rt).map(|v| v.iter().any(|i| i["name"] == json!(ghost.chars().map(|c| c as u32).collect::<Vec<u32>>())))
    };
    let mut atts: Vec<Value> = vec![];
    for (k, (ann_q, bye)) in [(false, "ttl0"), (true, "flush"), (false, "flush"), (true, "ttl0")].iter().enumerate() {
        let ghost = format!("ghost{k}");
        let info = InstanceInformation::new(ghost.clone()).with_ip_address(std::net::Ipv4Addr::new(10, 9, 9, k as u8 + 1).into()).with_port(7000 + k as u16);
        let full = Name::new_unchecked(Box::leak(format!("{ghost}.{service}").into_boxed_str()));
        let svc = Name::new_unchecked(Box::leak(service.clone().into_boxed_str()));
        let datagram = |ttl: u32, flush: bool, with_question: bool| -> Result<Vec<u8>, String> {
            let mut p = Packet::new_reply(0);
            if with_question {
                p.questions.push(Question::new(svc.clone(), QTYPE::ANY, CLASS::IN.into(), false));
            }
            for r in info.clone().into_records(&full, ttl).map_err(|e| e.to_string())? {
                let r = if flush { r.to_cache_flush_record() } else { r };
                if matches!(r.rdata, RData::A(_) | RData::AAAA(_)) {
                    p.additional_records.push(r);
                } else {
                    p.answers.push(r);
                }
            }
            p.build_bytes_vec_compressed().map_err(|e| e.to_string())
        };
        let ann = datagram(4500, false, *ann_q)?;
        let gone_gram = if *bye == "ttl0" { datagram(0, false, true)? } else { datagram(120, true, true)? };
        let _ = tx.send_to(&ann, "224.0.0.251:5353");
        std::thread::sleep(Duration::from_millis(700));
        let seen = match listed(&ghost) {
            Ok(b) => b,
            Err(at) => {
                atts.push(json!({"ann_q": ann_q, "bye": bye, "seen": false, "gone": false, "panic": at}));
                break;
            }
        };
        let _ = tx.send_to(&gone_gram, "224.0.0.251:5353");
        std::thread::sleep(Duration::from_millis(2300));
        let gone = match listed(&ghost) {
            Ok(b) => !b,
            Err(at) => {
                atts.push(json!({"ann_q": ann_q, "bye": bye, "seen": seen, "gone": false, "panic": at}));
                break;
            }
        };
        atts.push(json!({"ann_q": ann_q, "bye": bye, "seen": seen, "gone": gone, "panic": ""}));
    }
    std::mem::forget(peer);
    Ok(json!(atts))
}

pub fn run(a: &Args) {
    let mut out = Out::new(&a.out, a.shards);
    let mut st = Stats::default();
    let rt = std::sync::Arc::new(tokio::runtime::Builder::new_multi_thread().worker_threads(4).enable_all().build().expect("tokio runtime"));
    let mut rng = StdRng::seed_from_u64(a.seed ^ 0xe2e);
    let scenarios = if a.tier == "thorough" { 4 } else { 1 };
    let attempts = if a.tier == "thorough" { 3 } else { 2 };
    // every attempt of every scenario has its own service name, so they can all run at the same time
    let mut jobs = vec![];
    for s in 0..scenarios {
        for asynchronous in [false, true] {
            let npeers = if s % 2 == 0 { 3 } else { 2 };
            let names = ["alpha", "Beta-b", "c3"];
            let infos: Vec<Value> = (0..npeers).map(|i| random_instance(&mut rng, names[i])).collect();
            let remove = rng.gen_range(0..npeers);
            let ttl = 60u32;
            let handles: Vec<_> = (0..attempts)
                .map(|k| {
                    let service = format!("_e{}s{}k{}{}._tcp.local", std::process::id(), s, k, if asynchronous { "a" } else { "s" });
                    let (infos, rt) = (infos.clone(), rt.clone());
                    std::thread::spawn(move || {
                        crate::util::install_panic_hook();
                        attempt(&infos, &service, ttl, asynchronous, remove, &rt)
                    })
                })
                .collect();
            jobs.push((s, asynchronous, npeers, infos, remove, ttl, handles));
        }
    }
    for (s, asynchronous, npeers, infos, remove, ttl, handles) in jobs {
        let mut tls: Vec<Value> = vec![];
        let mut note = String::new();
        for h in handles {
            match h.join() {
                Ok(Ok(tl)) => tls.push(json!(tl)),
                Ok(Err(why)) => note = why,
                Err(_) => note = "attempt thread panicked".to_string(),
            }
        }
        let panics: Vec<String> = FOREIGN_PANICS.lock().map(|v| v.clone()).unwrap_or_default();
        st.case((s, asynchronous), !tls.is_empty());
        st.bump(if tls.is_empty() { "e2e-inconclusive" } else { "e2e-scenarios" });
        out.emit(json!({"ev": "E2E", "cls": format!("e2e {} peers={}", if asynchronous { "async" } else { "sync" }, npeers),
            "flavour": if asynchronous { "async" } else { "sync" }, "peers": infos, "ttl": ttl, "remove": remove, "attempts": tls, "panics": panics, "note": note}));
    }
    // the foreign peer (sync and tokio listeners, one after the other: 4 x 3 s each)
    let fhandles: Vec<_> = [false, true]
        .into_iter()
        .map(|asynchronous| {
            let rt = rt.clone();
            (asynchronous, std::thread::spawn(move || {
                crate::util::install_panic_hook();
                foreign(asynchronous, &rt)
            }))
        })
        .collect();
    for (asynchronous, h) in fhandles {
        let (atts, note) = match h.join() {
            Ok(Ok(v)) => (v, String::new()),
            Ok(Err(why)) => (json!([]), why),
            Err(_) => (json!([]), "foreign-peer thread panicked".to_string()),
        };
        st.case(("foreign", asynchronous), atts.as_array().map(|v| !v.is_empty()).unwrap_or(false));
        st.bump("e2e-foreign");
        out.emit(json!({"ev": "E2EForeign", "cls": format!("e2e foreign peer {}", if asynchronous { "async" } else { "sync" }),
            "flavour": if asynchronous { "async" } else { "sync" }, "attempts": atts, "note": note}));
    }
    out.finish(st.into_json("e2e",
        "real ServiceDiscovery peers (sync and tokio flavours) on the loopback multicast group: 2-3 peers advertising random instances (1-3 IPv4/IPv6 addresses, 1-2 ports, attributes with absent/empty/non-empty values) of a unique service find each other, one of them leaves with remove_service_from_discovery; get_known_services() of every peer is sampled every 250-500 ms; sampled, not exhaustive; non-trivial = the sockets could be set up",
        false));
}
