//! C03 / C07 (compression) and C04 (writers): packets from the builder state machine plus large-message
//! recipes that push names across the 16 KiB pointer limit; every writer kind and capacity.
use crate::msg::*;
use crate::packet::load_cases;
use crate::proj::*;
use crate::util::*;
use serde_json::{json, Value};
use simple_dns::Packet;
use std::io::Cursor;

fn nm(s: &str) -> Value {
    Value::Array(s.split('.').filter(|x| !x.is_empty()).map(|l| bytes_json(l.as_bytes())).collect())
}

fn rr(name: &str, t: u64, rd: Value) -> Value {
    json!({"name": nm(name), "type": t, "class": 1, "cf": false, "ttl": [0, 0, 0, 60], "rd": rd})
}

fn filler(len: usize, seed: u8) -> Value {
    bytes_json(&(0..len).map(|i| (i as u8).wrapping_mul(31).wrapping_add(seed)).collect::<Vec<u8>>())
}

/// a packet in which the name "n.m" first appears exactly at offset `t` of the plain AND compressed output
pub fn big_recipe(t: usize, tail_pad: usize) -> Value {
    // header 12, question c.b.a (7 + 4) -> 23; NULL record owner p.q (5) + 10 fixed -> payload starts at 38
    let l = t - 38;
    let mut an = vec![
        rr("p.q", 10, json!([filler(l, 7)])),
        rr("n.m", 15, json!([[0, 1], nm("c.b.a")])),      // owner first seen at t; exchange seen at offset 12
        rr("n.m", 2, json!([nm("z.n.m")])),               // owner repeated; target shares the late suffix
        rr("z.n.m", 5, json!([nm("n.m")])),
        rr("c.b.a", 12, json!([nm("x.c.b.a")])),          // early names stay compressible
        rr("x.c.b.a", 6, json!([nm("n.m"), nm("b.a"), [0, 0, 0, 1], [0, 0, 0, 2], [0, 0, 0, 3], [0, 0, 0, 4], [0, 0, 0, 5]])),
    ];
    // names that share only a late suffix with the name straddling the limit ("n.m" starts at t, so
    // for t in 16376..16392 each of its labels, and those of "w.v.u" right after it, crosses 16383 in turn)
    an.push(rr("w.v.u", 2, json!([nm("q.m")])));
    an.push(rr("m", 5, json!([nm("v.u")])));
    an.push(rr("u", 15, json!([[0, 3], nm("x.u")])));
    an.push(rr("q.m", 12, json!([nm("y.v.u")])));
    // an SRV (compression forbidden) whose target is new, followed by records owned by that target: the target's
    // labels, written beyond the pointer limit for t >= ~16300, must not become pointer targets
    an.push(rr("_svc._tcp.zz", 33, json!([[0, 0], [0, 0], [0, 80], nm("newhost.yy.zz")])));
    an.push(rr("newhost.yy.zz", 1, json!([[10, 0, 0, 9]])));
    an.push(rr("yy.zz", 2, json!([nm("newhost.yy.zz")])));
    if tail_pad > 0 {
        an.push(rr("p.q", 10, json!([filler(tail_pad, 9)])));
        an.push(rr("late.n.m", 2, json!([nm("late.n.m")])));
        an.push(rr("late.n.m", 15, json!([[0, 9], nm("z.n.m")])));
    }
    json!({"id": 77, "fs": 0x8400u32, "opcode": 0, "rcode": 0, "opt": [],
        "qd": [{"name": nm("c.b.a"), "qtype": 255, "qclass": 1, "unicast": false}],
        "an": an, "ns": [], "ar": [rr("s.n.m", 33, json!([[0, 1], [0, 2], [0, 80], nm("n.m")]))]})
}

pub fn run(a: &Args) {
    let mut out = Out::new(&a.out, a.shards);
    let mut st = Stats::default();
    let mut go = |out: &mut Out, st: &mut Stats, cls: &str, p: &Value, nontrivial: bool| match roundtrip_event(cls, p) {
        Ok(e) => {
            st.case(p.to_string(), nontrivial);
            out.emit(e);
        }
        Err(why) => {
            eprintln!("construct failed: {why}");
            std::process::exit(2);
        }
    };
    let cases = load_cases(a, 0);
    st.counters.insert("distinct_rr_types".into(), crate::packet::distinct_types(&cases));
    for c in cases {
        let p = &c["pkt"];
        let n: usize = ["qd", "an", "ns", "ar"].iter().map(|k| p[*k].as_array().unwrap().len()).sum();
        go(&mut out, &mut st, &format!("gen-packet entries={}", if n < 2 { "0-1" } else { "n" }), p, n >= 2);
    }
    // messages straddling 16384 and beyond
    let mut ts: Vec<(usize, usize)> = (16376..=16392).map(|t| (t, 0)).collect();
    ts.extend([(12000, 0), (16384, 20000), (20000, 0), (32768, 0), (32768, 30000), (49152, 14000), (60000, 0), (65000, 0)]);
    if a.tier == "thorough" {
        ts.extend((16300..16376).map(|t| (t, 0)));
        ts.extend((1..40).map(|i| (16384 + i * 1200, 500 + i * 10)));
    }
    for (t, pad) in ts {
        go(&mut out, &mut st, &format!("big first-late-name-at={} {}", if t < 16384 { "<16384" } else { ">=16384" }, if pad > 0 { "two-payloads" } else { "one-payload" }), &big_recipe(t, pad), true);
    }
    for e in ctor_variant_events("compress") {
        st.case(e["pkt"].to_string(), true);
        out.emit(e);
    }
    for e in framed_events("compress") {
        st.case(e["cls"].to_string(), true);
        out.emit(e);
    }
    out.finish(st.into_json("compress",
        "every packet of Gen_Packet (suffix-sharing name tree, all record types) serialised with and without compression and parsed back; large-message recipes in which a name first appears at each offset 16376..16392, 20000, 32768, 49152, 60000, 65000 and is then repeated in owner, RFC 1035 RDATA and SRV positions; non-trivial = at least two entries",
        false));
}

// ------------------------------------------------------------------------------------ C04 sinks
fn write_into<W: std::io::Write + std::io::Seek>(p: &Packet, comp: bool, w: &mut W) -> Value {
    match guarded(|| if comp { p.write_compressed_to(w) } else { p.write_to(w) }) {
        Ok(Ok(())) => json!(["ok"]),
        Ok(Err(e)) => json!(["err", format!("{:?}", e)]),
        Err(at) => json!(["panic", at]),
    }
}

/// a growable writer whose write() takes at most k bytes at a time
struct Chunked {
    inner: Cursor<Vec<u8>>,
    k: usize,
}
impl std::io::Write for Chunked {
    fn write(&mut self, buf: &[u8]) -> std::io::Result<usize> {
        let n = buf.len().min(self.k);
        self.inner.write(&buf[..n])
    }
    fn flush(&mut self) -> std::io::Result<()> {
        Ok(())
    }
}
impl std::io::Seek for Chunked {
    fn seek(&mut self, pos: std::io::SeekFrom) -> std::io::Result<u64> {
        self.inner.seek(pos)
    }
}

fn sink_events(out: &mut Out, st: &mut Stats, pkt: &Value, dense: bool) -> Result<(), String> {
    let p = construct_packet(pkt)?;
    for comp in [false, true] {
        let mode = if comp { "comp" } else { "plain" };
        let reference = match guarded(|| if comp { p.build_bytes_vec_compressed() } else { p.build_bytes_vec() }) {
            Ok(Ok(b)) => b,
            _ => continue, // C02/C03 territory
        };
        let n = reference.len();
        let mut ev = |kind: &str, start: usize, cap: i64, prefill: &[u8], o: Value, after: &[u8]| {
            st.case((pkt.to_string(), mode, kind.to_string(), start, cap, prefill.len()), true);
            let spare = if cap < 0 { "growable".to_string() } else if (cap as usize) < start + n { "too-small".into() } else if (cap as usize) == start + n { "exact".into() } else { "spare".into() };
            let pre = if prefill.len() <= start { "none" } else if prefill.len() < start + n { "shorter" } else { "longer-or-equal" };
            out.emit(json!({"ev": "SinkBuild", "cls": format!("sink {kind} {mode} start={} cap={spare} prefill={pre}", if start == 0 { "0" } else { "k" }),
                "kind": kind, "mode": mode, "start": start, "cap": cap, "prefill": bytes_json(prefill), "ref": bytes_json(&reference), "out": o, "after": bytes_json(after)}));
        };
        // growable cursor over a Vec: offsets 0 / 2 / 7, storage empty (just the prefix), shorter, longer
        for start in [0usize, 2, 7] {
            for extra in [0usize, 3, n + 5] {
                let prefill: Vec<u8> = (0..start + extra).map(|i| 0xA0u8.wrapping_add(i as u8)).collect();
                let mut c = Cursor::new(prefill.clone());
                c.set_position(start as u64);
                let o = write_into(&p, comp, &mut c);
                ev("vec-cursor", start, -1, &prefill, o, c.get_ref());
            }
        }
        // a writer that accepts at most k bytes per write() call (a pipe, a rate-limited or chunking writer): a
        // serialiser must use write_all, or loop
        for k in [1usize, 5, 11] {
            let mut w = Chunked { inner: Cursor::new(Vec::new()), k };
            let o = write_into(&p, comp, &mut w);
            ev(&format!("chunked-{k}"), 0, -1, &[], o, w.inner.get_ref());
        }
        // fixed-size writers: every capacity 0..=n+2 (dense) or the boundary ones
        let caps: Vec<usize> = if dense && n <= 90 { (0..=n + 2).collect() } else { vec![0, 1, 11, 12, 13, n / 2, n.saturating_sub(1), n, n + 1, n + 2, n + 64] };
        for &cap in &caps {
            if !comp {
                let mut buf = vec![0xEEu8; cap];
                let prefill = buf.clone();
                let o = {
                    let mut w: &mut [u8] = &mut buf[..];
                    match guarded(|| p.write_to(&mut w)) {
                        Ok(Ok(())) => json!(["ok"]),
                        Ok(Err(e)) => json!(["err", format!("{:?}", e)]),
                        Err(at) => json!(["panic", at]),
                    }
                };
                ev("slice", 0, cap as i64, &prefill, o, &buf);
            }
            for start in [0usize, 3] {
                if start > cap {
                    continue;
                }
                let mut buf = vec![0xEEu8; cap];
                let prefill = buf.clone();
                let o = {
                    let mut c = Cursor::new(&mut buf[..]);
                    c.set_position(start as u64);
                    write_into(&p, comp, &mut c)
                };
                ev("slice-cursor", start, cap as i64, &prefill, o, &buf);
            }
        }
    }
    Ok(())
}

pub fn run_sinks(a: &Args) {
    let mut out = Out::new(&a.out, a.shards);
    let mut st = Stats::default();
    let cases = load_cases(a, 0);
    let limit = if a.tier == "thorough" { cases.len() } else { 120 };
    for (i, c) in cases.iter().take(limit).enumerate() {
        if let Err(why) = sink_events(&mut out, &mut st, &c["pkt"], i % 4 == 0 || a.tier == "thorough") {
            eprintln!("construct failed: {why}");
            std::process::exit(2);
        }
    }
    // a writer positioned beyond 64 KiB (a message appended to a large buffer): offsets are message-relative whatever the
    // position; the event carries only the tail of the storage (the prefix is checked to be untouched here)
    for start in [65536usize, 70001] {
        let pkt = big_recipe(200, 0);
        if let Ok(p) = construct_packet(&pkt) {
            if let Ok(reference) = p.build_bytes_vec_compressed() {
                let prefill: Vec<u8> = (0..start).map(|i| (i % 251) as u8).collect();
                let mut c = Cursor::new(prefill.clone());
                c.set_position(start as u64);
                let o = write_into(&p, true, &mut c);
                let after = c.get_ref();
                let untouched = after.len() >= start && after[..start] == prefill[..];
                st.case((start, "far"), true);
                out.emit(json!({"ev": "SinkBuild", "cls": "sink vec-cursor comp start=far cap=growable prefill=none", "kind": "vec-cursor-far", "mode": "comp",
                    "start": 0, "cap": -1, "prefill": [], "ref": bytes_json(&reference), "out": if untouched { o } else { json!(["err", "prefix modified"]) },
                    "after": bytes_json(&after[start.min(after.len())..])}));
            }
        }
    }
    // a couple of hand-made packets so that tiny and name-sharing cases are always present
    for p in [big_recipe(200, 0), json!({"id": 1, "fs": 0, "opcode": 0, "rcode": 0, "opt": [], "qd": [], "an": [], "ns": [], "ar": []})] {
        sink_events(&mut out, &mut st, &p, true).unwrap();
    }
    // packets with exactly ONE entry whose own names share a suffix (owner and RDATA name, two RDATA names): the
    // smallest messages in which compression has something to do
    {
        let name = |s: &str| -> Value { json!(s.split('.').map(|l| l.as_bytes().to_vec()).collect::<Vec<_>>()) };
        let rec = |sec: &str, t: u64, rd: Value| -> Value {
            let mut p = json!({"id": 2, "fs": 32768, "opcode": 0, "rcode": 0, "opt": [], "qd": [], "an": [], "ns": [], "ar": []});
            p[sec] = json!([{"name": name("_http._tcp.local"), "type": t, "class": 1, "cf": false, "ttl": [0, 0, 0, 120], "rd": rd}]);
            p
        };
        let singles = vec![
            rec("an", 12, json!([name("printer._http._tcp.local")])),
            rec("ns", 2, json!([name("ns._tcp.local")])),
            rec("ar", 15, json!([[0, 10], name("mail._http._tcp.local")])),
            rec("an", 33, json!([[0, 0], [0, 0], [0, 80], name("host.local")])),
            rec("an", 6, json!([name("ns.example.org"), name("admin.example.org"), [0, 0, 0, 1], [0, 0, 0, 2], [0, 0, 0, 3], [0, 0, 0, 4], [0, 0, 0, 5]])),
            rec("an", 14, json!([name("a.example.org"), name("b.example.org")])),
            json!({"id": 3, "fs": 0, "opcode": 0, "rcode": 0, "opt": [], "qd": [{"name": name("_http._tcp.local"), "qtype": 12, "qclass": 1, "unicast": false}], "an": [], "ns": [], "ar": []}),
        ];
        for p in singles {
            if let Err(why) = sink_events(&mut out, &mut st, &p, true) {
                eprintln!("construct failed: {why}");
                std::process::exit(2);
            }
        }
    }
    out.finish(st.into_json("sinks",
        "packets of Gen_Packet x {plain, compressed} x writers: growable Cursor<Vec> at offsets 0/2/7 over storage with no / shorter / longer pre-existing content; fixed &mut [u8] and Cursor<&mut [u8]> (offset 0 and 3) of every capacity 0..len+2 (every 4th packet; boundary capacities otherwise); non-trivial = any",
        false));
}

/// step-level binding of the compressor: one CompReset / CompName / CompStep* session per packet
pub fn run_steps(a: &Args) {
    let mut out = Out::new(&a.out, a.shards);
    let mut st = Stats::default();
    let mut pkts: Vec<Value> = load_cases(a, 0).into_iter().map(|c| c["pkt"].clone()).collect();
    for t in [16376usize, 16380, 16382, 16383, 16384, 16386, 16390, 20000] {
        pkts.push(big_recipe(t, 0));
    }
    for (si, pkt) in pkts.iter().enumerate() {
        let p = match construct_packet(pkt) {
            Ok(p) => p,
            Err(_) => continue,
        };
        simple_dns::verif::arm_trace();
        let _ = simple_dns::verif::take_names();
        let r = guarded(|| p.build_bytes_vec_compressed().is_ok());
        let steps = simple_dns::verif::take_trace();
        let names = simple_dns::verif::take_names();
        if r != Ok(true) {
            continue;
        }
        out.emit_to(si, json!({"ev": "CompReset"}));
        let mut n = 0u64;
        for s in &steps {
            match s[0] {
                10 | 14 => {
                    let labels: Vec<Value> = names[(s[1] - 1) as usize].iter().map(|l| bytes_json(l)).collect();
                    out.emit_to(si, json!({"ev": "CompName", "arm": s[0], "labels": labels}));
                }
                11 => out.emit_to(si, json!({"ev": "CompStep", "arm": 11, "i": s[1], "v": s[2], "rec": 0})),
                12 => out.emit_to(si, json!({"ev": "CompStep", "arm": 12, "i": s[1], "v": s[2], "rec": s[3]})),
                13 => out.emit_to(si, json!({"ev": "CompStep", "arm": 13, "i": s[1], "v": 0, "rec": 0})),
                _ => {}
            }
            n += 1;
        }
        st.case(pkt.to_string(), n > 2);
        st.sessions += 1;
    }
    out.finish(st.into_json("compsteps",
        "every packet of Gen_Packet and large recipes serialised with compression while the hook inside Name::compress_append / plain_append records one event per name and per loop arm; replayed one TLC step per event against the suffix-table actions of MC_Compress; non-trivial = more than two events",
        false));
}
