//! `vh replay --cases <events.ndjson>`: re-execute recorded events against the current tree.
//! Events that carry their inputs are executed again (same event kind, fresh outcome); the others are
//! copied unchanged (they are then only re-validated).
use crate::util::*;
use serde_json::{json, Value};
use std::io::BufRead;

pub fn run(a: &Args) {
    let mut out = Out::new(&a.out, 1);
    let mut st = Stats::default();
    let path = a.cases.first().expect("--cases <recorded events>");
    let mut dog = crate::hostile::Dog::new();
    for line in std::io::BufReader::new(std::fs::File::open(path).unwrap()).lines() {
        let line = line.unwrap();
        if line.trim().is_empty() {
            continue;
        }
        let ev: Value = serde_json::from_str(&line).unwrap();
        let cls = ev["cls"].as_str().unwrap_or("replay").to_string();
        let kind = ev["ev"].as_str().unwrap_or("");
        let fresh = match kind {
            "Parse" => Some(dog.parse_event(&cls, &json_bytes(&ev["b"]))),
            "Peek" => Some(crate::hostile::peek_event(&cls, &json_bytes(&ev["b"]))),
            "Reparse" => crate::msg::reparse_event(&cls, &json_bytes(&ev["b"])),
            "Inspect" => crate::inspect::inspect_event(&cls, &json_bytes(&ev["b"])),
            "RoundTrip" => crate::msg::roundtrip_event(&cls, &ev["pkt"]).ok(),
            "NameDecode" => {
                let b = json_bytes(&ev["b"]);
                let starts: Vec<usize> = ev["at"].as_array().unwrap().iter().map(|x| x.as_u64().unwrap() as usize).collect();
                let r: Vec<Value> = starts.iter().map(|&at| crate::name::decode_at(&b, at)).collect();
                Some(json!({"ev": "NameDecode", "cls": cls, "b": ev["b"], "at": starts, "r": r}))
            }
            _ => None,
        };
        st.case(&line, fresh.is_some());
        st.bump(if fresh.is_some() { "re-executed" } else { "copied" });
        out.emit(fresh.unwrap_or(ev));
    }
    out.finish(st.into_json("replay", "recorded events re-executed against the current tree where they carry their inputs", false));
}
