mod codes;
mod compress;
mod e2e;
mod edns;
mod hdr;
mod hostile;
mod inspect;
mod mdns;
mod msg;
mod name;
mod nametext;
mod packet;
mod proj;
mod rdata;
mod reparse;
mod resolver;
mod resp;
mod replay;
mod store;
mod txt;
mod util;
mod values;

#[global_allocator]
static GLOBAL: util::Meter = util::Meter;

fn main() {
    util::install_panic_hook();
    let a = util::parse_args();
    match a.topic.as_str() {
        "hdr" => hdr::run(&a),
        "codes" => codes::run(&a),
        "name" => name::run(&a),
        "namesteps" => name::run_steps(&a),
        "nametext" => nametext::run(&a),
        "rdata" => rdata::run(&a),
        "packet" => packet::run(&a),
        "edns" => edns::run(&a),
        "reparse" => reparse::run(&a),
        "txt" => txt::run(&a),
        "replay" => replay::run(&a),
        "store" => store::run(&a),
        "discover" => mdns::run_discover(&a),
        "datagram" => mdns::run_datagram(&a),
        "values" => values::run(&a),
        "compress" => compress::run(&a),
        "sinks" => compress::run_sinks(&a),
        "compsteps" => compress::run_steps(&a),
        "inspect" => inspect::run(&a),
        "framing" => hostile::run_framing(&a),
        "hostile" => hostile::run_hostile(&a),
        "e2e" => e2e::run(&a),
        "resprun" => resp::run(&a),
        "resolverrun" => resolver::run(&a),
        t => {
            eprintln!("unknown topic {t}");
            std::process::exit(2);
        }
    }
}
