//! Message-level observations shared by the codec properties: Parse, RoundTrip, Reparse events.
use crate::proj::*;
use crate::util::*;
use serde_json::{json, Value};
use simple_dns::{Packet, SimpleDnsError};

fn err_kind(e: &SimpleDnsError) -> &'static str {
    match e {
        SimpleDnsError::InvalidClass(_) => "InvalidClass",
        SimpleDnsError::InvalidQClass(_) => "InvalidQClass",
        SimpleDnsError::InvalidQType(_) => "InvalidQType",
        SimpleDnsError::InvalidServiceName => "InvalidServiceName",
        SimpleDnsError::InvalidServiceLabel => "InvalidServiceLabel",
        SimpleDnsError::InvalidCharacterString => "InvalidCharacterString",
        SimpleDnsError::InvalidHeaderData => "InvalidHeaderData",
        SimpleDnsError::InvalidDnsPacket => "InvalidDnsPacket",
        SimpleDnsError::AttemptedInvalidOperation => "AttemptedInvalidOperation",
        SimpleDnsError::InsufficientData => "InsufficientData",
        SimpleDnsError::FailedToWrite => "FailedToWrite",
        SimpleDnsError::InvalidUtf8String(_) => "InvalidUtf8String",
        _ => "other",
    }
}

/// Packet::parse under catch_unwind with the heap meter and the work counter
pub fn parse_out(b: &[u8]) -> (Value, u64, usize) {
    simple_dns::verif::reset_steps();
    let (r, peak) = {
        let mut peak = 0usize;
        let r = guarded(|| {
            let (r, pk) = metered(|| Packet::parse(b).map(|p| project_packet_metered(&p)));
            peak = pk;
            r
        });
        (r, peak)
    };
    let steps = simple_dns::verif::steps();
    let out = match r {
        Ok(Ok(v)) => json!(["ok", v]),
        Ok(Err(e)) => json!(["err", err_kind(&e)]),
        Err(at) => json!(["panic", at]),
    };
    (out, steps, peak)
}

// projection allocates JSON; keep it out of the meter by disarming around it
fn project_packet_metered(p: &Packet) -> Value {
    crate::util::unmetered(|| project_packet(p))
}

pub fn parse_event(cls: &str, b: &[u8]) -> Value {
    let (out, steps, peak) = parse_out(b);
    json!({"ev": "Parse", "cls": cls, "b": bytes_json(b), "out": out, "steps": steps, "peak": peak})
}

fn build_out(p: &Packet, comp: bool) -> Value {
    match guarded(|| if comp { p.build_bytes_vec_compressed() } else { p.build_bytes_vec() }) {
        Ok(Ok(b)) => json!(["ok", bytes_json(&b)]),
        Ok(Err(e)) => json!(["err", err_kind(&e)]),
        Err(at) => json!(["panic", at]),
    }
}

fn parse_of(build: &Value) -> Value {
    if build[0] == json!("ok") {
        parse_out(&json_bytes(&build[1])).0
    } else {
        json!(["err", "not-built"])
    }
}

/// C02/C03/C04/C07/C09/C10: construct from the abstract packet, serialise both ways, parse both back
pub fn roundtrip_event(cls: &str, pkt: &Value) -> Result<Value, String> {
    let p = construct_packet(pkt)?;
    // the event carries the projection of what was actually constructed (checked against the request)
    let projected = project_packet(&p);
    if &projected != pkt {
        return Err(format!("projection of constructed packet differs from request: {} vs {}", projected, pkt));
    }
    let plain = build_out(&p, false);
    let comp = build_out(&p, true);
    let pp = parse_of(&plain);
    let pc = parse_of(&comp);
    Ok(json!({"ev": "RoundTrip", "cls": cls, "pkt": projected, "plain": plain, "comp": comp, "pp": pp, "pc": pc}))
}

/// C11: for bytes the parser accepts: re-serialise both ways and parse again
pub fn reparse_event(cls: &str, b: &[u8]) -> Option<Value> {
    let parsed = guarded(|| Packet::parse(b).ok().map(|p| (project_packet(&p), build_out(&p, false), build_out(&p, true))));
    match parsed {
        Ok(Some((p1, b2, b3))) => {
            let p2 = parse_of(&b2);
            let p3 = parse_of(&b3);
            Some(json!({"ev": "Reparse", "cls": cls, "b": bytes_json(b), "p1": ["ok", p1], "b2": b2, "b3": b3, "p2": p2, "p3": p3}))
        }
        _ => None,
    }
}
