//! Message-level observations shared by the codec properties: Parse, RoundTrip, Reparse events.
use crate::proj::*;
use crate::util::*;
use serde_json::{json, Value};
use simple_dns::{Packet, SimpleDnsError};

fn err_kind(e: &SimpleDnsError) -> &'static str {
    match e {
        SimpleDnsError::InvalidClass(_) => "InvalidClass",
        SimpleDnsError::InvalidQClass(_) => "InvalidQClass",
        SimpleDnsError::InvalidQType(_) => "InvalidQType",
        SimpleDnsError::InvalidServiceName => "InvalidServiceName",
        SimpleDnsError::InvalidServiceLabel => "InvalidServiceLabel",
        SimpleDnsError::InvalidCharacterString => "InvalidCharacterString",
        SimpleDnsError::InvalidHeaderData => "InvalidHeaderData",
        SimpleDnsError::InvalidDnsPacket => "InvalidDnsPacket",
        SimpleDnsError::AttemptedInvalidOperation => "AttemptedInvalidOperation",
        SimpleDnsError::InsufficientData => "InsufficientData",
        SimpleDnsError::FailedToWrite => "FailedToWrite",
        SimpleDnsError::InvalidUtf8String(_) => "InvalidUtf8String",
        _ => "other",
    }
}

/// Packet::parse under catch_unwind with the heap meter and the work counter
pub fn parse_out(b: &[u8]) -> (Value, u64, usize) {
    simple_dns::verif::reset_steps();
    let (r, peak) = {
        let mut peak = 0usize;
        let r = guarded(|| {
            let (r, pk) = metered(|| Packet::parse(b).map(|p| project_packet_metered(&p)));
            peak = pk;
            r
        });
        (r, peak)
    };
    let steps = simple_dns::verif::steps();
    let out = match r {
        Ok(Ok(v)) => json!(["ok", v]),
        Ok(Err(e)) => json!(["err", err_kind(&e)]),
        Err(at) => json!(["panic", at]),
    };
    (out, steps, peak)
}

// projection allocates JSON; keep it out of the meter by disarming around it
fn project_packet_metered(p: &Packet) -> Value {
    crate::util::unmetered(|| project_packet(p))
}

pub fn parse_event(cls: &str, b: &[u8]) -> Value {
    let (out, steps, peak) = parse_out(b);
    json!({"ev": "Parse", "cls": cls, "b": bytes_json(b), "out": out, "steps": steps, "peak": peak})
}

fn build_out(p: &Packet, comp: bool) -> Value {
    match guarded(|| if comp { p.build_bytes_vec_compressed() } else { p.build_bytes_vec() }) {
        Ok(Ok(b)) => json!(["ok", bytes_json(&b)]),
        Ok(Err(e)) => json!(["err", err_kind(&e)]),
        Err(at) => json!(["panic", at]),
    }
}

fn parse_of(build: &Value) -> Value {
    if build[0] == json!("ok") {
        parse_out(&json_bytes(&build[1])).0
    } else {
        json!(["err", "not-built"])
    }
}

/// C02/C03/C04/C07/C09/C10: construct from the abstract packet, serialise both ways, parse both back
/// a writer whose write() takes a single byte per call
pub struct OneByte(pub Vec<u8>);
impl std::io::Write for OneByte {
    fn write(&mut self, b: &[u8]) -> std::io::Result<usize> {
        if b.is_empty() {
            return Ok(0);
        }
        self.0.push(b[0]);
        Ok(1)
    }
    fn flush(&mut self) -> std::io::Result<()> {
        Ok(())
    }
}
fn chunk_out(p: &Packet) -> Value {
    let mut w = OneByte(vec![]);
    match guarded(|| p.write_to(&mut w)) {
        Ok(Ok(())) => json!(["ok", w.0]),
        Ok(Err(e)) => json!(["err", format!("{e:?}")]),
        Err(at) => json!(["panic", at]),
    }
}

pub fn roundtrip_event(cls: &str, pkt: &Value) -> Result<Value, String> {
    let p = construct_packet(pkt)?;
    // the event carries the projection of what was actually constructed (checked against the request)
    // (what the crate shows of the packet just assembled is compared with the request by the rules, like the
    // rest: the event carries the request)
    let projected = project_packet(&p);
    if &projected != pkt {
        let plain = build_out(&p, false);
        let comp = build_out(&p, true);
        return Ok(json!({"ev": "RoundTrip", "cls": cls, "pkt": pkt, "plain": plain, "comp": comp, "pp": parse_of(&plain), "pc": parse_of(&comp), "chunk": chunk_out(&p),
            "constructed": projected}));
    }
    let plain = build_out(&p, false);
    let comp = build_out(&p, true);
    let pp = parse_of(&plain);
    let pc = parse_of(&comp);
    let chunk = chunk_out(&p);
    Ok(json!({"ev": "RoundTrip", "cls": cls, "pkt": projected, "plain": plain, "comp": comp, "pp": pp, "pc": pc, "chunk": chunk}))
}

/// the same for a packet that was NOT constructed from an abstract value by the generic constructor but
/// through one of the crate's convenience constructors: the abstract packet is its own projection
pub fn roundtrip_of_packet(cls: &str, p: &Packet) -> Value {
    let projected = project_packet(p);
    let plain = build_out(p, false);
    let comp = build_out(p, true);
    let pp = parse_of(&plain);
    let pc = parse_of(&comp);
    let chunk = chunk_out(p);
    json!({"ev": "RoundTrip", "cls": cls, "pkt": projected, "plain": plain, "comp": comp, "pp": pp, "pc": pc, "chunk": chunk})
}

/// Packets whose records come from the convenience constructors of the crate (every way of making a TXT,
/// the typed SVCB setters, the simple-mdns record helpers, owned copies), followed by further records so
/// that a wrong length shows in the framing of what follows.
pub fn ctor_variant_events(cls: &str) -> Vec<Value> {
    use simple_dns::rdata::{RData, A, HTTPS, SVCB, TXT};
    use simple_dns::{CharacterString, Name, ResourceRecord, CLASS};
    use std::collections::HashMap;
    use std::convert::TryFrom;
    let texts: Vec<String> = vec![
        String::new(), "a".into(), "k=v".into(), "x".repeat(254), "y".repeat(255), "z".repeat(256), "w".repeat(509),
        "\u{e9}".repeat(127), "\u{e9}".repeat(128), "ab;cd=ef;g".into(), "q".repeat(1000),
    ];
    let leaked: Vec<&'static str> = texts.iter().map(|t| &*Box::leak(t.clone().into_boxed_str())).collect();
    let mut txts: Vec<(String, TXT<'static>)> = vec![];
    for (i, t) in leaked.iter().enumerate() {
        // (the empty text gives a TXT without any character-string, which has no wire representation of its own)
        if !t.is_empty() {
            if let Ok(x) = TXT::try_from(*t) {
                txts.push((format!("try_from-str#{i}"), x));
            }
        }
        if t.len() <= 255 {
            if let Ok(x) = TXT::new().with_string(t) {
                txts.push((format!("with_string#{i}"), x));
            }
            let mut y = TXT::new();
            if y.add_string(t).is_ok() && y.add_string("second").is_ok() {
                txts.push((format!("add_string#{i}"), y));
            }
            if let Ok(cs) = CharacterString::new(t.as_bytes()) {
                txts.push((format!("with_char_string#{i}"), TXT::new().with_char_string(cs.clone()).with_char_string(cs)));
            }
        }
    }
    // a refused operation leaves the object as it was: add_string with a 256 / 300-byte text (refused) before,
    // between and after accepted ones
    {
        let bads: [&'static str; 2] = [Box::leak("r".repeat(256).into_boxed_str()), Box::leak("\u{e9}".repeat(150).into_boxed_str())];
        for (bi, bad) in bads.iter().enumerate() {
            for place in 0..3usize {
                let mut y = TXT::new();
                let goods = ["first", "k=v"];
                let mut refused = false;
                for step in 0..3usize {
                    if step == place {
                        refused |= y.add_string(bad).is_err();
                    }
                    if step < 2 {
                        let _ = y.add_string(goods[step]);
                    }
                }
                if refused {
                    txts.push((format!("add_string-after-refusal#{bi}.{place}"), y));
                }
            }
        }
    }
    for (i, m) in [
        vec![("k", Some("v"))], vec![("flag", None)], vec![("e", Some(""))], vec![("a", Some("1")), ("b", None), ("c", Some(""))],
        vec![("long", Some(&*Box::leak("v".repeat(249).into_boxed_str())))],
    ].iter().enumerate() {
        let map: HashMap<String, Option<String>> = m.iter().map(|(k, v)| (k.to_string(), v.map(|s| s.to_string()))).collect();
        if let Ok(x) = TXT::try_from(map) {
            txts.push((format!("try_from-map#{i}"), x));
        }
    }
    let tail = |p: &mut Packet<'static>| {
        p.answers.push(ResourceRecord::new(Name::new_unchecked("tail.example"), CLASS::IN, 5, RData::A(A { address: 0x01020304 })));
        p.additional_records.push(ResourceRecord::new(Name::new_unchecked("x.tail.example"), CLASS::CH, 6, RData::A(A { address: 0x05060708 })));
    };
    let mut evs = vec![];
    for (how, txt) in txts {
        for owned in [false, true] {
            let mut p = Packet::new_reply(3);
            let rd = if owned { RData::TXT(txt.clone().into_owned()) } else { RData::TXT(txt.clone()) };
            p.answers.push(ResourceRecord::new(Name::new_unchecked("t.example"), CLASS::IN, 10, rd));
            tail(&mut p);
            evs.push(roundtrip_of_packet(&format!("{cls} ctor TXT {how}{}", if owned { " owned" } else { "" }), &p));
        }
    }
    // the smallest entries there are: 1..4 questions about the root, 1..3 records owned by the root with empty
    // RDATA, and both -- sections that take 5 / 11 bytes per entry, with nothing behind them
    {
        use simple_dns::{Question, QCLASS, QTYPE, TYPE};
        for nq in 0..=4usize {
            for nr in 0..=3usize {
                if nq + nr == 0 {
                    continue;
                }
                let mut p = Packet::new_query(5);
                for i in 0..nq {
                    let qt = [QTYPE::ANY, QTYPE::TYPE(TYPE::A), QTYPE::AXFR, QTYPE::TYPE(TYPE::TXT)][i % 4];
                    p.questions.push(Question::new(Name::new_unchecked(""), qt, QCLASS::ANY, i % 2 == 1));
                }
                for i in 0..nr {
                    let rr = ResourceRecord::new(Name::new_unchecked(""), CLASS::IN, i as u32, RData::Empty([TYPE::NULL, TYPE::A, TYPE::Unknown(65280)][i % 3]));
                    match i % 3 {
                        0 => p.answers.push(rr),
                        1 => p.name_servers.push(rr),
                        _ => p.additional_records.push(rr),
                    }
                }
                evs.push(roundtrip_of_packet(&format!("{cls} ctor minimal entries"), &p));
            }
        }
    }
    // typed SVCB setters
    let mut s = SVCB::new(1, Name::new_unchecked("svc.example"));
    s.set_port(443);
    let _ = s.set_alpn([CharacterString::new(b"h2").unwrap(), CharacterString::new(b"h3").unwrap()]);
    s.set_no_default_alpn();
    let _ = s.set_ipv4hint([0x0a000001u32, 0x0a000002]);
    let _ = s.set_ipv6hint([1u128]);
    let _ = s.set_mandatory([1u16, 3]);
    // the same for the SVCB parameters: an over-long value is refused, a parameter set twice is replaced
    let mut s2 = SVCB::new(2, Name::new_unchecked("svc2.example"));
    let _ = s2.set_param(7, vec![7u8; 70000]);
    s2.set_port(80);
    let _ = s2.set_param(9, vec![9u8; 65536]);
    s2.set_port(8080);
    let _ = s2.set_param(65000, vec![1u8, 2, 3]);
    let _ = s2.set_param(65000, vec![4u8]);
    for https in [false, true] {
        let mut p = Packet::new_reply(4);
        let rd = if https { RData::HTTPS(HTTPS(s2.clone())) } else { RData::SVCB(s2.clone()) };
        p.answers.push(ResourceRecord::new(Name::new_unchecked("s2.example"), CLASS::IN, 10, rd));
        tail(&mut p);
        evs.push(roundtrip_of_packet(&format!("{cls} ctor SVCB after refusal"), &p));
    }
    for https in [false, true] {
        let mut p = Packet::new_reply(4);
        let rd = if https { RData::HTTPS(HTTPS(s.clone())) } else { RData::SVCB(s.clone()) };
        p.answers.push(ResourceRecord::new(Name::new_unchecked("s.example"), CLASS::IN, 10, rd));
        tail(&mut p);
        evs.push(roundtrip_of_packet(&format!("{cls} ctor SVCB setters"), &p));
    }
    evs
}

/// C04 on packets that have no wire form of their own (an extended response code without an OPT record to carry
/// its upper bits): whatever the serialisers write for them must still be a well-framed message.
pub fn framed_events(cls: &str) -> Vec<Value> {
    use simple_dns::rdata::{RData, A};
    use simple_dns::{Name, Question, ResourceRecord, CLASS, RCODE, TYPE};
    let mut evs = vec![];
    let body = |p: &mut Packet<'static>| {
        p.questions.push(Question::new(Name::new_unchecked("q.example"), TYPE::A.into(), CLASS::IN.into(), false));
        p.answers.push(ResourceRecord::new(Name::new_unchecked("q.example"), CLASS::IN, 5, RData::A(A { address: 0x01020304 })));
        p.additional_records.push(ResourceRecord::new(Name::new_unchecked("x.q.example"), CLASS::IN, 6, RData::A(A { address: 0x05060708 })));
    };
    // (1) BADVERS set on a packet that never had an OPT record
    let mut p = Packet::new_reply(9);
    body(&mut p);
    *p.rcode_mut() = RCODE::BADVERS;
    evs.push(("badvers-without-opt".to_string(), p));
    // (2) a received message whose OPT carries upper rcode bits (named and unassigned), OPT then removed
    for hi in [1u8, 2, 128, 255] {
        let mut m = vec![0, 9, 0x80, 0x03, 0, 0, 0, 0, 0, 0, 0, 1];
        m.extend([0, 0, 41, 4, 0xd0, hi, 0, 0, 0, 0, 0]);
        let bytes: &'static [u8] = Box::leak(m.into_boxed_slice());
        if let Ok(mut q) = Packet::parse(bytes) {
            *q.opt_mut() = None;
            body(&mut q);
            evs.push((format!("parsed-ext-rcode-hi={hi}-opt-removed"), q));
        }
    }
    // (3) a received message with two OPT records: one is lifted into the header, the other stays a record
    {
        let mut m = vec![0, 9, 0x80, 0, 0, 0, 0, 0, 0, 0, 0, 3];
        m.extend([0, 0, 41, 4, 0xd0, 0, 0, 0, 0, 0, 0]);
        m.extend([1, b'h', 0, 0, 1, 0, 1, 0, 0, 0, 9, 0, 4, 10, 0, 0, 1]);
        m.extend([0, 0, 41, 2, 0, 0, 1, 0, 0, 0, 4, 0, 3, 0, 0]);
        let bytes: &'static [u8] = Box::leak(m.into_boxed_slice());
        if let Ok(q) = Packet::parse(bytes) {
            evs.push(("parsed-two-opt".to_string(), q));
        }
    }
    evs.into_iter()
        .map(|(how, p)| json!({"ev": "Framed", "cls": format!("{cls} framed {how}"), "outs": [build_out(&p, false), build_out(&p, true)],
            "counts": [p.questions.len(), p.answers.len(), p.name_servers.len(), p.additional_records.len()]}))
        .collect()
}

/// C11: for bytes the parser accepts: re-serialise both ways and parse again
pub fn reparse_event(cls: &str, b: &[u8]) -> Option<Value> {
    let parsed = guarded(|| Packet::parse(b).ok().map(|p| (project_packet(&p), build_out(&p, false), build_out(&p, true))));
    match parsed {
        Ok(Some((p1, b2, b3))) => {
            let p2 = parse_of(&b2);
            let p3 = parse_of(&b3);
            Some(json!({"ev": "Reparse", "cls": cls, "b": bytes_json(b), "p1": ["ok", p1], "b2": b2, "b3": b3, "p2": p2, "p3": p3}))
        }
        _ => None,
    }
}
