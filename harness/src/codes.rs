//! C18: code tables and query matching.
use crate::util::*;
use serde_json::{json, Value};
use simple_dns::rdata::{RData, NULL};
use simple_dns::{Name, Packet, ResourceRecord, CLASS, QCLASS, QTYPE, TYPE};
use std::convert::TryFrom;

pub fn type_mnemonics() -> Vec<(&'static str, TYPE)> {
    vec![
        ("A", TYPE::A), ("NS", TYPE::NS), ("MD", TYPE::MD), ("MF", TYPE::MF), ("CNAME", TYPE::CNAME),
        ("SOA", TYPE::SOA), ("MB", TYPE::MB), ("MG", TYPE::MG), ("MR", TYPE::MR), ("NULL", TYPE::NULL),
        ("WKS", TYPE::WKS), ("PTR", TYPE::PTR), ("HINFO", TYPE::HINFO), ("MINFO", TYPE::MINFO),
        ("MX", TYPE::MX), ("TXT", TYPE::TXT), ("RP", TYPE::RP), ("AFSDB", TYPE::AFSDB), ("ISDN", TYPE::ISDN),
        ("RT", TYPE::RouteThrough), ("NSAP", TYPE::NSAP), ("NSAP_PTR", TYPE::NSAP_PTR), ("AAAA", TYPE::AAAA),
        ("LOC", TYPE::LOC), ("SRV", TYPE::SRV), ("NAPTR", TYPE::NAPTR), ("KX", TYPE::KX), ("CERT", TYPE::CERT),
        ("OPT", TYPE::OPT), ("DS", TYPE::DS), ("IPSECKEY", TYPE::IPSECKEY), ("RRSIG", TYPE::RRSIG),
        ("NSEC", TYPE::NSEC), ("DNSKEY", TYPE::DNSKEY), ("DHCID", TYPE::DHCID), ("ZONEMD", TYPE::ZONEMD),
        ("SVCB", TYPE::SVCB), ("HTTPS", TYPE::HTTPS), ("EUI48", TYPE::EUI48), ("EUI64", TYPE::EUI64),
        ("CAA", TYPE::CAA),
    ]
}

fn class_num(c: CLASS) -> u16 {
    c as u16
}

pub fn class_from(n: u16) -> Option<CLASS> {
    CLASS::try_from(n).ok()
}

/// opaque payloads: arbitrary bytes, bytes that also read as character-strings / as a name / as an address
const PAYLOADS: [&[u8]; 5] = [b"\x01\x02\x03", b"\x02ab", b"\x01a\x00", b"\x00", b"\x0a\x00\x00\x01"];

fn record(how: &str, t: u16, with_data: bool, payload: usize) -> Option<(ResourceRecord<'static>, Vec<u8>)> {
    // returns the record (constructed or parsed from wire, by `how`)
    let data: &'static [u8] = PAYLOADS[payload];
    let name = Name::new_unchecked("x.y");
    if how == "constructed" {
        let rdata = if with_data { RData::NULL(t, NULL::new(data).unwrap()) } else { RData::Empty(TYPE::from(t)) };
        Some((ResourceRecord::new(name, CLASS::IN, 7, rdata), vec![]))
    } else {
        let mut m = vec![0, 1, 0x80, 0, 0, 0, 0, 1, 0, 0, 0, 0];
        m.extend(b"\x01x\x01y\x00");
        m.extend(t.to_be_bytes());
        m.extend([0, 1, 0, 0, 0, 7]);
        if with_data {
            m.extend((data.len() as u16).to_be_bytes());
            m.extend(data);
        } else {
            m.extend([0, 0]);
        }
        let p = Packet::parse(&m).ok()?;
        let rr = p.answers.into_iter().next()?.into_owned();
        Some((rr, m))
    }
}

pub fn run(a: &Args) {
    let mut out = Out::new(&a.out, a.shards);
    let mut st = Stats::default();
    // 1. all 65536 codes through the four conversions and back
    for c0 in (0u32..65536).step_by(256) {
        let mut r = vec![];
        for c in c0..c0 + 256 {
            let c = c as u16;
            let row = guarded(|| {
                let ty = TYPE::from(c);
                let back: u16 = ty.into();
                let named = !matches!(ty, TYPE::Unknown(_));
                let class = CLASS::try_from(c).map(|x| class_num(x) as i64).unwrap_or(-1);
                let qtype = QTYPE::try_from(c).map(|x| u16::from(x) as i64).unwrap_or(-1);
                let qclass = QCLASS::try_from(c).map(|x| u16::from(x) as i64).unwrap_or(-1);
                json!([back, named, class, qtype, qclass])
            });
            let nontrivial = matches!(&row, Ok(v) if v[1] == json!(true) || v[2] != json!(-1) || v[3] != json!(-1) || v[4] != json!(-1));
            st.case(("conv", c), nontrivial);
            r.push(row.unwrap_or_else(|at| json!(["panic", at])));
        }
        out.emit(json!({"ev": "CodeConv", "cls": "code-conv", "c0": c0, "r": r}));
    }
    // 2. mnemonics
    let mut m: Vec<Value> = vec![];
    for (n, t) in type_mnemonics() {
        m.push(json!(["TYPE", n, u16::from(t)]));
        st.case(("mn", n), true);
    }
    for (n, q) in [("IXFR", QTYPE::IXFR), ("AXFR", QTYPE::AXFR), ("MAILB", QTYPE::MAILB), ("MAILA", QTYPE::MAILA), ("ANY", QTYPE::ANY)] {
        m.push(json!(["QTYPE", n, u16::from(q)]));
        st.case(("mn", n), true);
    }
    for (n, c) in [("IN", CLASS::IN), ("CS", CLASS::CS), ("CH", CLASS::CH), ("HS", CLASS::HS), ("NONE", CLASS::NONE)] {
        m.push(json!(["CLASS", n, class_num(c)]));
        st.case(("mn", n), true);
    }
    m.push(json!(["QCLASS", "ANY", u16::from(QCLASS::ANY)]));
    out.emit(json!({"ev": "Mnemonics", "cls": "mnemonics", "m": m}));
    // 3. record type x question type matrix
    let mut tcodes: Vec<u16> = type_mnemonics().iter().map(|(_, t)| u16::from(*t)).collect();
    tcodes.extend([0u16, 19, 99, 250, 256, 65280, 65535]);
    let mut qcodes: Vec<u16> = type_mnemonics().iter().map(|(_, t)| u16::from(*t)).collect();
    qcodes.extend([251u16, 252, 253, 254, 255]);
    for &t in &tcodes {
        for how in ["constructed", "parsed"] {
            for (with_data, payload) in [(false, 0usize), (true, 0), (true, 1), (true, 2), (true, 3), (true, 4)] {
                // typed variants with content are exercised by the rdata topic; opaque content here only
                // for NULL / unknown codes (any bytes are valid content for them)
                let named = !matches!(TYPE::from(t), TYPE::Unknown(_)) && t != 10;
                // ... and for the opaque variant constructed with the code of a supported type (public
                // constructor RData::NULL(code, ..)): it serialises with that code, so that is its type
                if with_data && named && how == "parsed" {
                    continue;
                }
                if t == 41 && how == "parsed" {
                    continue; // OPT in the answer section is a different story (C09)
                }
                let rec = guarded(|| record(how, t, with_data, payload));
                let rr = match rec {
                    Ok(Some((rr, _))) => rr,
                    // any bytes are valid content for NULL and for a type the library has no parser for (RFC 3597):
                    // a message it rejects here is reported (type "not reported at all")
                    Ok(None) if with_data => {
                        out.emit(json!({"ev": "MatchType", "cls": format!("match-type {how} opaque rejected"), "t": t, "how": format!("{how}/opaque#{payload}"), "reported": -3, "canon": false, "q": []}));
                        continue;
                    }
                    Ok(None) => continue,
                    Err(at) => {
                        out.emit(json!({"ev": "MatchType", "cls": format!("match-type {how}"), "t": t, "how": how, "reported": -2, "canon": false, "q": [], "panic": at}));
                        continue;
                    }
                };
                let reported: u16 = rr.rdata.type_code().into();
                let canon = rr.rdata.type_code() == TYPE::from(t);
                let mut q = vec![];
                for &qc in &qcodes {
                    if let Ok(qt) = QTYPE::try_from(qc) {
                        let m = guarded(|| rr.match_qtype(qt));
                        q.push(json!([qc, m.unwrap_or(false)]));
                        st.case(("mt", t, how, with_data, payload, qc), true);
                    }
                }
                let kind = if with_data { "opaque" } else { "empty" };
                out.emit(json!({"ev": "MatchType", "cls": format!("match-type {how} {kind} t={}", if named {"named"} else if t == 10 {"null"} else {"unknown"}),
                    "t": t, "how": format!("{how}/{kind}#{payload}"), "reported": reported, "canon": canon, "q": q}));
            }
        }
    }
    // 3b. the same tables as the parser applies them to the wire: one question / one record whose QTYPE, QCLASS
    //     (15 bits under the unicast-response bit) or CLASS (15 bits under the cache-flush bit) field takes every
    //     16-bit value; a supported code is shown as itself with the top bit reported separately, an unsupported
    //     one rejects the message -- never aliased to another code.  r[i] = -1 (rejected) | code * 2 + top bit
    for field in ["qtype", "qclass", "class"] {
        for c0 in (0u32..65536).step_by(256) {
            let mut r: Vec<i64> = vec![];
            for v in c0..c0 + 256 {
                let v = v as u16;
                let mut m = vec![0, 1, 0x80, 0, 0, 0, 0, 0, 0, 0, 0, 0];
                if field == "class" {
                    m[7] = 1;
                    m.extend(b"\x01x\x00\x00\x01");
                    m.extend(v.to_be_bytes());
                    m.extend([0, 0, 0, 1, 0, 4, 10, 0, 0, 1]);
                } else {
                    m[5] = 1;
                    m.extend(b"\x01x\x00");
                    m.extend(if field == "qtype" { v.to_be_bytes() } else { [0, 1] });
                    m.extend(if field == "qclass" { v.to_be_bytes() } else { [0, 1] });
                }
                let got = guarded(|| match Packet::parse(&m) {
                    Ok(p) => match field {
                        "qtype" => u16::from(p.questions[0].qtype) as i64 * 2,
                        "qclass" => u16::from(p.questions[0].qclass) as i64 * 2 + p.questions[0].unicast_response as i64,
                        _ => (p.answers[0].class as u16) as i64 * 2 + p.answers[0].cache_flush as i64,
                    },
                    Err(_) => -1,
                });
                r.push(got.unwrap_or(-2));
                st.case(("wire", field, v), true);
            }
            out.emit(json!({"ev": "WireCodes", "cls": format!("wire-codes {field}"), "field": field, "c0": c0, "r": r}));
        }
    }
    // 4. class x qclass
    for c in [1u16, 2, 3, 4, 254] {
        // (the mDNS cache-flush bit shares the class field on the wire but is not part of the class)
        for how in ["constructed", "parsed", "constructed+cache-flush", "parsed+cache-flush"] {
            let flush = how.ends_with("cache-flush");
            let rr = if how.starts_with("constructed") {
                let cl = match class_from(c) {
                    Some(cl) => cl,
                    None => {
                        out.emit(json!({"ev": "MatchClass", "cls": "match-class", "c": c, "how": how, "q": [[c, false, "refused"]]}));
                        continue;
                    }
                };
                ResourceRecord::new(Name::new_unchecked("x"), cl, 1, RData::Empty(TYPE::A)).with_cache_flush(flush)
            } else {
                let mut m = vec![0, 1, 0x80, 0, 0, 0, 0, 1, 0, 0, 0, 0];
                m.extend(b"\x01x\x00\x00\x01");
                m.extend((c | if flush { 0x8000 } else { 0 }).to_be_bytes());
                m.extend([0, 0, 0, 1, 0, 0]);
                match Packet::parse(&m) {
                    Ok(p) => p.answers[0].clone().into_owned(),
                    Err(_) => continue,
                }
            };
            let mut q = vec![];
            for qc in [1u16, 2, 3, 4, 254, 255] {
                // (a supported question class the conversion refuses is an observation, not a set-up problem)
                match QCLASS::try_from(qc) {
                    Ok(qcl) => q.push(json!([qc, rr.match_qclass(qcl)])),
                    Err(_) => q.push(json!([qc, false, "refused"])),
                }
                st.case(("mc", c, how, qc), true);
            }
            out.emit(json!({"ev": "MatchClass", "cls": "match-class", "c": c, "how": how, "q": q}));
        }
    }
    out.finish(st.into_json("codes",
        "all 65536 codes through TYPE/CLASS/QTYPE/QCLASS conversion and back; every mnemonic; (record type x question type) over all supported codes plus NULL/unknown, records constructed and parsed, empty and opaque content; all class x qclass pairs; non-trivial = code accepted by at least one table / any matrix cell",
        true));
}
