//! C08: header words through parse / peek / re-serialise; builder side; flag algebra.
use crate::util::*;
use serde_json::{json, Value};
use simple_dns::{header_buffer, Packet, PacketFlag, OPCODE, RCODE};

pub const FLAGS: [(PacketFlag, u16); 7] = [
    (PacketFlag::RESPONSE, 1 << 15),
    (PacketFlag::AUTHORITATIVE_ANSWER, 1 << 10),
    (PacketFlag::TRUNCATION, 1 << 9),
    (PacketFlag::RECURSION_DESIRED, 1 << 8),
    (PacketFlag::RECURSION_AVAILABLE, 1 << 7),
    (PacketFlag::AUTHENTIC_DATA, 1 << 5),
    (PacketFlag::CHECKING_DISABLED, 1 << 4),
];

/// observe the 7 named flags one by one through the public `has_flags`
pub fn flag_mask_of(p: &Packet) -> u16 {
    FLAGS.iter().fold(0, |m, (f, bit)| if p.has_flags(*f) { m | bit } else { m })
}

pub fn flags_from_mask(mask: u16) -> PacketFlag {
    FLAGS.iter().fold(PacketFlag::empty(), |acc, (f, bit)| if mask & bit != 0 { acc | *f } else { acc })
}

pub fn opcode_num(o: OPCODE) -> i64 {
    match o {
        OPCODE::StandardQuery => 0,
        OPCODE::InverseQuery => 1,
        OPCODE::ServerStatusRequest => 2,
        OPCODE::Notify => 4,
        OPCODE::Update => 5,
        OPCODE::Reserved => -1,
    }
}

pub fn opcode_from(n: i64) -> OPCODE {
    match n {
        0 => OPCODE::StandardQuery,
        1 => OPCODE::InverseQuery,
        2 => OPCODE::ServerStatusRequest,
        4 => OPCODE::Notify,
        5 => OPCODE::Update,
        _ => OPCODE::Reserved,
    }
}

pub fn rcode_num(r: RCODE) -> i64 {
    match r {
        RCODE::NoError => 0,
        RCODE::FormatError => 1,
        RCODE::ServerFailure => 2,
        RCODE::NameError => 3,
        RCODE::NotImplemented => 4,
        RCODE::Refused => 5,
        RCODE::YXDOMAIN => 6,
        RCODE::YXRRSET => 7,
        RCODE::NXRRSET => 8,
        RCODE::NOTAUTH => 9,
        RCODE::NOTZONE => 10,
        RCODE::BADVERS => 16,
        RCODE::Reserved => -1,
    }
}

pub fn rcode_from(n: i64) -> RCODE {
    match n {
        0 => RCODE::NoError,
        1 => RCODE::FormatError,
        2 => RCODE::ServerFailure,
        3 => RCODE::NameError,
        4 => RCODE::NotImplemented,
        5 => RCODE::Refused,
        6 => RCODE::YXDOMAIN,
        7 => RCODE::YXRRSET,
        8 => RCODE::NXRRSET,
        9 => RCODE::NOTAUTH,
        10 => RCODE::NOTZONE,
        16 => RCODE::BADVERS,
        _ => RCODE::Reserved,
    }
}

const Q: &[u8] = b"\x01a\x00\x00\x01\x00\x01";
const RR: &[u8] = b"\x01a\x00\x00\x01\x00\x01\x00\x00\x00\x05\x00\x04\x01\x02\x03\x04";

fn message(id: u16, w: u16, counts: [u16; 4]) -> Vec<u8> {
    let mut m = vec![];
    m.extend(id.to_be_bytes());
    m.extend(w.to_be_bytes());
    for c in counts {
        m.extend(c.to_be_bytes());
    }
    for _ in 0..counts[0] {
        m.extend(Q);
    }
    for _ in 0..(counts[1] + counts[2] + counts[3]) {
        m.extend(RR);
    }
    m
}

fn peek_i<T>(r: Result<simple_dns::Result<T>, String>, f: impl Fn(T) -> i64) -> i64 {
    match r {
        Ok(Ok(v)) => f(v),
        _ => -2,
    }
}

/// a writer whose write() takes at most k bytes per call
struct OneAtATime {
    buf: Vec<u8>,
    k: usize,
}
impl std::io::Write for OneAtATime {
    fn write(&mut self, b: &[u8]) -> std::io::Result<usize> {
        let n = b.len().min(self.k);
        self.buf.extend_from_slice(&b[..n]);
        Ok(n)
    }
    fn flush(&mut self) -> std::io::Result<()> {
        Ok(())
    }
}

pub fn emit_words(out: &mut Out, st: &mut Stats, variants: &[(u16, [u16; 4])]) {
    for (id, counts) in variants {
        for w0 in (0u32..65536).step_by(256) {
            let mut p = vec![];
            let mut k = vec![];
            let mut r = vec![];
            for w in w0..w0 + 256 {
                let w = w as u16;
                let m = message(*id, w, *counts);
                // parse
                let pr = guarded(|| {
                    Packet::parse(&m).map(|pk| {
                        let fields = json!(["ok", pk.id(), flag_mask_of(&pk), opcode_num(pk.opcode()), rcode_num(pk.rcode()),
                            pk.questions.len(), pk.answers.len(), pk.name_servers.len(), pk.additional_records.len()]);
                        let re = pk.build_bytes_vec().ok().map(|b| u16::from_be_bytes([b[2], b[3]]) as i64).unwrap_or(-2);
                        (fields, re)
                    })
                });
                st.case(("w", *id, *counts, w), matches!(pr, Ok(Ok(_))));
                match pr {
                    Ok(Ok((f, re))) => {
                        p.push(f);
                        r.push(json!(re));
                    }
                    Ok(Err(_)) => {
                        p.push(json!(["err"]));
                        r.push(json!(-2));
                    }
                    Err(at) => {
                        p.push(json!(["panic", at]));
                        r.push(json!(-2));
                    }
                }
                // peek: has_flags observed flag by flag
                let mut mask = 0i64;
                for (f, bit) in FLAGS.iter() {
                    match guarded(|| header_buffer::has_flags(&m, *f)) {
                        Ok(Ok(true)) => mask |= *bit as i64,
                        Ok(Ok(false)) => {}
                        _ => mask = -2,
                    }
                }
                k.push(json!([
                    peek_i(guarded(|| header_buffer::id(&m)), |v| v as i64),
                    peek_i(guarded(|| header_buffer::questions(&m)), |v| v as i64),
                    peek_i(guarded(|| header_buffer::answers(&m)), |v| v as i64),
                    peek_i(guarded(|| header_buffer::name_servers(&m)), |v| v as i64),
                    peek_i(guarded(|| header_buffer::additional_records(&m)), |v| v as i64),
                    mask,
                    peek_i(guarded(|| header_buffer::rcode(&m)), rcode_num),
                    peek_i(guarded(|| header_buffer::opcode(&m)), opcode_num),
                ]));
            }
            out.emit(json!({"ev": "HdrWords", "cls": "hdr-words", "id": id, "counts": counts, "w0": w0, "n": 256, "p": p, "k": k, "r": r}));
        }
    }
}

pub fn run(a: &Args) {
    let mut out = Out::new(&a.out, a.shards);
    let thorough = a.tier == "thorough";
    let variants: Vec<(u16, [u16; 4])> = if thorough {
        vec![(0x1234, [0, 0, 0, 0]), (0, [1, 1, 1, 1]), (0xFFFF, [2, 0, 1, 3]), (0x8001, [0, 3, 0, 0]), (0x00FF, [1, 0, 2, 1])]
    } else {
        vec![(0x1234, [0, 0, 0, 0]), (0xFFFE, [2, 1, 0, 3]), (0, [1, 0, 0, 0]), (0xFFFF, [0, 1, 1, 0])]
    };
    let mut st = Stats::default();
    emit_words(&mut out, &mut st, &variants);
    // build side: ctor x flag subsets x named opcodes x named rcodes
    let opcodes = [0i64, 1, 2, 4, 5];
    let rcodes = [0i64, 1, 2, 3, 4, 5, 6, 7, 8, 9, 10, 16];
    for ctor in ["query", "reply"] {
        for sub in 0u16..128 {
            let mask = FLAGS.iter().enumerate().fold(0u16, |m, (i, (_, bit))| if sub & (1 << i) != 0 { m | bit } else { m });
            let mut c: Vec<Value> = vec![];
            for op in opcodes {
                for rc in rcodes {
                    let res = guarded(|| {
                        let mut p = if ctor == "query" { Packet::new_query(7) } else { Packet::new_reply(7) };
                        p.set_flags(flags_from_mask(mask));
                        *p.opcode_mut() = opcode_from(op);
                        *p.rcode_mut() = rcode_from(rc);
                        // the same header through the writer-based entry points into a writer that takes one byte /
                        // five bytes per write() call: the twelve header bytes must all arrive, in place
                        let mut words = vec![];
                        for k in [1usize, 5] {
                            let mut w = OneAtATime { buf: vec![], k };
                            let ok = p.write_to(&mut w).is_ok();
                            // (a wrong id or a short header shows as -3)
                            words.push(if ok && w.buf.len() == 12 && w.buf[0] == 0 && w.buf[1] == 7 { i64::from(u16::from_be_bytes([w.buf[2], w.buf[3]])) } else { -3 });
                        }
                        p.build_bytes_vec().map(|b| (u16::from_be_bytes([b[2], b[3]]) as i64, words))
                    });
                    let (w, words) = match res {
                        Ok(Ok(x)) => x,
                        _ => (-2, vec![-2, -2]),
                    };
                    c.push(json!([ctor, mask, op, rc, w, words[0], words[1]]));
                    st.case(("b", ctor, mask, op, rc), w >= 0);
                }
            }
            out.emit(json!({"ev": "HdrBuilds", "cls": "hdr-builds", "c": c}));
        }
    }
    // flag algebra: all 128 x 128 pairs
    let masks: Vec<u16> = (0u16..128)
        .map(|sub| FLAGS.iter().enumerate().fold(0u16, |m, (i, (_, bit))| if sub & (1 << i) != 0 { m | bit } else { m }))
        .collect();
    for &ma in &masks {
        let mut ops = vec![];
        for &mb in &masks {
            let res = guarded(|| {
                let mut p = Packet::new_query(1);
                p.set_flags(flags_from_mask(ma));
                let has = p.has_flags(flags_from_mask(mb));
                // the same question asked of the serialised header by the peek function, and of the packet parsed back
                let bytes = p.build_bytes_vec().unwrap_or_default();
                let peek = header_buffer::has_flags(&bytes, flags_from_mask(mb)).unwrap_or(!has);
                let parsed_has = Packet::parse(&bytes).map(|x| x.has_flags(flags_from_mask(mb))).unwrap_or(!has);
                let mut q = p.clone();
                q.set_flags(flags_from_mask(mb));
                let after_set = flag_mask_of(&q);
                let mut r = p.clone();
                r.remove_flags(flags_from_mask(mb));
                let after_rm = flag_mask_of(&r);
                (after_set, after_rm, has, peek, parsed_has)
            });
            match res {
                Ok((s, r, h, k, ph)) => ops.push(json!([mb, s, r, h, k, ph])),
                Err(_) => ops.push(json!([mb, -2, -2, false, false, false])),
            }
            st.case(("f", ma, mb), true);
        }
        out.emit(json!({"ev": "FlagOps", "cls": "flag-ops", "a": ma, "ops": ops}));
    }
    out.finish(st.into_json("hdr",
        "all 65536 flag words per (id,counts) variant through parse+8 peeks+re-serialise; all ctor x 128 flag subsets x named opcodes x named rcodes built; all 128x128 flag-set pairs; non-trivial = parse accepted / build succeeded / any pair",
        true));
}
