//! The one-shot resolver on real sockets (diagnostic, `./check binding`): every script printed by TLC
//! (Gen_Resolver: sequences of datagrams over a small alphabet) is played to a real OneShotMdnsResolver (sync
//! and tokio flavours) that is in the middle of query_service_address / query_service_address_and_port; the
//! outcome is recorded and the trace specification compares it with the model's (Resolver.tla).
use crate::packet::load_cases;
use crate::util::*;
use serde_json::{json, Value};
use simple_dns::rdata::{RData, A, AAAA, SRV, TXT};
use simple_dns::{Name, Packet, ResourceRecord, CLASS};
use std::net::{IpAddr, UdpSocket};
use std::time::Duration;

fn record(r: &Value, q: &str, o: &str) -> ResourceRecord<'static> {
    let owner = if r["n"] == json!("q") { q } else { o };
    let name = Name::new_unchecked(Box::leak(owner.to_string().into_boxed_str()));
    let v = r["v"].as_u64().unwrap();
    let rd = match r["t"].as_str().unwrap() {
        "A" => RData::A(A { address: 0x0a000000 + v as u32 }),
        "AAAA" => RData::AAAA(AAAA { address: v as u128 }),
        "SRV" => RData::SRV(SRV { priority: 0, weight: 0, port: v as u16, target: name.clone() }),
        _ => RData::TXT(TXT::new().with_string("k=v").unwrap().into_owned()),
    };
    ResourceRecord::new(name, CLASS::IN, 30, rd)
}

fn datagram(r: &Value, q: &str, o: &str) -> Vec<u8> {
    let id = r["id"].as_u64().unwrap() as u16;
    let mut p = if r["qr"] == json!(true) { Packet::new_reply(id) } else { Packet::new_query(id) };
    for x in r["an"].as_array().unwrap() {
        p.answers.push(record(x, q, o));
    }
    for x in r["ar"].as_array().unwrap() {
        p.additional_records.push(record(x, q, o));
    }
    p.build_bytes_vec_compressed().unwrap()
}

fn ip_out(ip: IpAddr) -> (String, u64) {
    match ip {
        IpAddr::V4(a) => ("v4".into(), a.octets()[3] as u64),
        IpAddr::V6(a) => ("v6".into(), a.octets()[15] as u64),
    }
}

fn play(case: &Value, k: usize, asynchronous: bool, rt: &tokio::runtime::Handle) -> Value {
    let u = format!("{}x{}{}", std::process::id(), k, if asynchronous { "a" } else { "s" });
    let (q, o) = (format!("q{u}.local"), format!("o{u}.local"));
    let mode = case["mode"].as_str().unwrap().to_string();
    let grams: Vec<Vec<u8>> = case["script"].as_array().unwrap().iter().map(|r| datagram(r, &q, &o)).collect();
    let (q2, mode2) = (q.clone(), mode.clone());
    let rt2 = rt.clone();
    let worker = std::thread::spawn(move || {
        crate::util::install_panic_hook();
        guarded(move || -> Result<Value, String> {
            let timeout = Duration::from_millis(450);
            if asynchronous {
                rt2.block_on(async {
                    let mut r = simple_mdns::async_discovery::OneShotMdnsResolver::new().map_err(|e| e.to_string())?;
                    r.set_query_timeout(timeout);
                    r.set_unicast_response(false);
                    Ok(if mode2 == "addr" {
                        match r.query_service_address(&q2).await {
                            Ok(Some(ip)) => { let (k, v) = ip_out(ip); json!([k, v]) }
                            Ok(None) => json!(["none"]),
                            Err(e) => json!(["err", e.to_string()]),
                        }
                    } else {
                        match r.query_service_address_and_port(&q2).await {
                            Ok(Some(a)) => { let (k, v) = ip_out(a.ip()); json!(["some", k, v, a.port()]) }
                            Ok(None) => json!(["none"]),
                            Err(e) => json!(["err", e.to_string()]),
                        }
                    })
                })
            } else {
                let mut r = simple_mdns::sync_discovery::OneShotMdnsResolver::new().map_err(|e| e.to_string())?;
                r.set_query_timeout(timeout);
                r.set_unicast_response(false);
                Ok(if mode2 == "addr" {
                    match r.query_service_address(&q2) {
                        Ok(Some(ip)) => { let (k, v) = ip_out(ip); json!([k, v]) }
                        Ok(None) => json!(["none"]),
                        Err(e) => json!(["err", e.to_string()]),
                    }
                } else {
                    match r.query_service_address_and_port(&q2) {
                        Ok(Some(a)) => { let (k, v) = ip_out(a.ip()); json!(["some", k, v, a.port()]) }
                        Ok(None) => json!(["none"]),
                        Err(e) => json!(["err", e.to_string()]),
                    }
                })
            }
        })
    });
    // give the resolver time to open its sockets and send its query, then play the script
    std::thread::sleep(Duration::from_millis(150));
    if let Ok(tx) = UdpSocket::bind("0.0.0.0:0") {
        for g in &grams {
            let _ = tx.send_to(g, "224.0.0.251:5353");
            std::thread::sleep(Duration::from_millis(12));
        }
    }
    let out = match worker.join() {
        Ok(Ok(Ok(v))) => v,
        Ok(Ok(Err(why))) => json!(["inconclusive", why]),
        Ok(Err(at)) => json!(["panic", at]),
        Err(_) => json!(["panic", "thread"]),
    };
    json!({"ev": "ResolverRun", "cls": format!("resolver {} {}", if asynchronous { "async" } else { "sync" }, mode), "flavour": if asynchronous { "async" } else { "sync" },
        "mode": mode, "script": case["script"], "out": out})
}

pub fn run(a: &Args) {
    let mut out = Out::new(&a.out, a.shards);
    let mut st = Stats::default();
    let rt = tokio::runtime::Builder::new_multi_thread().worker_threads(4).enable_all().build().expect("tokio runtime");
    let cases = load_cases(a, 0);
    let par = 12usize;
    let mut jobs: Vec<(usize, Value, bool)> = vec![];
    for (k, c) in cases.iter().enumerate() {
        for asynchronous in [false, true] {
            jobs.push((k, c.clone(), asynchronous));
        }
    }
    let mut i = 0usize;
    while i < jobs.len() {
        let handles: Vec<_> = jobs[i..jobs.len().min(i + par)]
            .iter()
            .cloned()
            .map(|(k, c, asynchronous)| {
                let h = rt.handle().clone();
                std::thread::spawn(move || play(&c, k, asynchronous, &h))
            })
            .collect();
        for h in handles {
            if let Ok(e) = h.join() {
                st.case(e["script"].to_string() + e["cls"].as_str().unwrap_or(""), e["out"][0] != json!("none"));
                out.emit(e);
            }
        }
        i += par;
    }
    out.finish(st.into_json("resolverrun",
        "every script printed by TLC (Gen_Resolver: all sequences of up to L datagrams over 12 kinds of response x {address, address-and-port}) played over the loopback multicast group to a real OneShotMdnsResolver, sync and tokio, in the middle of its query; non-trivial = the resolver returned something",
        false));
}
