//! C19: TXT text and attribute conversions, character-string construction limits.
use crate::packet::load_cases;
use crate::util::*;
use serde_json::{json, Value};
use simple_dns::rdata::TXT;
use simple_dns::CharacterString;
use std::collections::HashMap;
use std::convert::TryFrom;

fn cps(s: &str) -> Vec<u32> {
    s.chars().map(|c| c as u32).collect()
}
fn text_of(v: &Value) -> String {
    v.as_array().unwrap().iter().map(|c| char::from_u32(c.as_u64().unwrap() as u32).unwrap()).collect()
}
fn val_json(v: &Option<String>) -> Value {
    match v {
        None => json!(["none"]),
        Some(s) => json!(["some", cps(s)]),
    }
}

fn split_event(cls: &str, text: &str) -> Value {
    let r = guarded(|| {
        TXT::try_from(text).map(|t| {
            let pieces: Vec<Value> = t.verif_strings().iter().map(|p| bytes_json(p)).collect();
            let joined = match String::try_from(t) {
                Ok(s) => json!(["ok", cps(&s)]),
                Err(_) => json!(["err"]),
            };
            json!(["ok", pieces, joined])
        })
    });
    let out = match r {
        Ok(Ok(v)) => v,
        Ok(Err(_)) => json!(["err"]),
        Err(at) => json!(["panic", at]),
    };
    json!({"ev": "TxtSplit", "cls": cls, "s": cps(text), "out": out})
}

fn long_event(cls: &str, text: &str) -> Value {
    let r = guarded(|| {
        TXT::try_from(text).ok().and_then(|t| t.long_attributes().ok()).map(|m| {
            let mut pairs: Vec<(String, Option<String>)> = m.into_iter().collect();
            pairs.sort();
            Value::Array(pairs.iter().map(|(k, v)| json!([cps(k), val_json(v)])).collect())
        })
    });
    let out = match r {
        Ok(Some(v)) => json!(["ok", v]),
        Ok(None) => json!(["err"]),
        Err(at) => json!(["panic", at]),
    };
    json!({"ev": "TxtLong", "cls": cls, "s": cps(text), "out": out})
}

fn attrs_event(cls: &str, m: &[(String, Option<String>)]) -> Value {
    let map: HashMap<String, Option<String>> = m.iter().cloned().collect();
    let r = guarded(|| {
        TXT::try_from(map).map(|t| {
            let strings: Vec<Value> = t.verif_strings().iter().map(|p| bytes_json(p)).collect();
            let mut back: Vec<(String, Option<String>)> = t.attributes().into_iter().collect();
            back.sort();
            json!(["ok", strings, Value::Array(back.iter().map(|(k, v)| json!([cps(k), val_json(v)])).collect::<Vec<_>>())])
        })
    });
    let out = match r {
        Ok(Ok(v)) => v,
        Ok(Err(_)) => json!(["err"]),
        Err(at) => json!(["panic", at]),
    };
    let mj: Vec<Value> = m.iter().map(|(k, v)| json!([cps(k), val_json(v)])).collect();
    json!({"ev": "TxtAttrs", "cls": cls, "m": mj, "out": out})
}

fn raw_event(cls: &str, strs: &[&str]) -> Value {
    let mut t = TXT::new();
    for s in strs {
        t.add_char_string(CharacterString::new(s.as_bytes()).unwrap().into_owned());
    }
    let mut back: Vec<(String, Option<String>)> = t.attributes().into_iter().collect();
    back.sort();
    let bj: Vec<Value> = back
        .iter()
        .map(|(k, v)| json!([bytes_json(k.as_bytes()), match v { None => json!(["none"]), Some(s) => json!(["some", bytes_json(s.as_bytes())]) }]))
        .collect();
    json!({"ev": "TxtRaw", "cls": cls, "strs": strs.iter().map(|s| bytes_json(s.as_bytes())).collect::<Vec<_>>(), "back": bj})
}

pub fn run(a: &Args) {
    let mut out = Out::new(&a.out, a.shards);
    let mut st = Stats::default();
    for c in load_cases(a, 0) {
        if c["mode"] == json!("text") {
            let text = text_of(&c["s"]);
            st.case(("split", &text), !text.is_empty());
            out.emit(split_event("gen-text", &text));
            out.emit(long_event("gen-text", &text));
        } else {
            let m: Vec<(String, Option<String>)> = c["m"]
                .as_array()
                .unwrap()
                .iter()
                .map(|p| (text_of(&p[0]), if p[1][0] == json!("none") { None } else { Some(text_of(&p[1][1])) }))
                .collect();
            st.case(("map", format!("{:?}", m)), !m.is_empty());
            out.emit(attrs_event("gen-map", &m));
        }
    }
    // lengths around multiples of 254 / 255 with a multi-byte character straddling each boundary
    for base in [0usize, 250, 251, 252, 253, 254, 255, 256, 257, 505, 506, 507, 508, 509, 510, 511, 512, 760, 761, 762, 763, 764, 765, 766, 1020, 2040, 5000] {
        for (name, ch) in [("ascii", "a"), ("2-byte", "\u{e9}"), ("3-byte", "\u{20ac}"), ("4-byte", "\u{1F600}")] {
            for lead in 0..4usize {
                if base < lead {
                    continue;
                }
                let text = format!("{}{}{}", "x".repeat(base - lead), ch, "y".repeat(lead + 3));
                st.case(("split", &text), true);
                out.emit(split_event(&format!("boundary {name}"), &text));
            }
        }
    }
    for text in [";", "=", "a;", ";a", "a=;b", "a=b=c;d;;e=", "\u{13b}", "a\u{13b}b=c\u{13d}d", "k=v;k=w", "=v;k", "a;a=1"] {
        st.case(("long", text), true);
        out.emit(long_event("long-handmade", text));
    }
    // attribute entries around the 255-byte limit; keys that would need '='
    for total in [253usize, 254, 255, 256, 257, 300] {
        for (cls, k, v) in [
            ("entry-limit key-only", "k".repeat(total), None),
            ("entry-limit key=value", "k".to_string(), Some("v".repeat(total - 2))),
            ("entry-limit multibyte", "\u{e9}".to_string(), Some("\u{e9}".repeat((total - 3) / 2))),
        ] {
            st.case(("limit", cls, total), true);
            out.emit(attrs_event(cls, &[(k, v), ("other".to_string(), Some(String::new()))]));
        }
    }
    // duplicate keys, absent vs empty, in raw TXT strings
    for strs in [vec!["k=1", "k=2", "k"], vec!["k", "k=1"], vec!["k=", "k"], vec!["a=b=c", "a"], vec!["=x", "", "y="], vec!["A=1", "a=2"]] {
        st.case(("raw", format!("{:?}", strs)), true);
        out.emit(raw_event("raw-duplicates", &strs));
    }
    // character-string construction: every length 0..300 through each constructor
    for n in 0..=300usize {
        let bytes = vec![b'z'; n];
        let s = "z".repeat(n);
        for (via, r) in [
            ("new", CharacterString::new(&bytes).map(|c| c.into_owned())),
            ("try_from_str", CharacterString::try_from(s.as_str()).map(|c| c.into_owned())),
            ("try_from_string", CharacterString::try_from(s.clone())),
        ] {
            let (ok, wire) = match r {
                Ok(c) => {
                    let t = TXT::new().with_char_string(c);
                    let rr = simple_dns::ResourceRecord::new(simple_dns::Name::new_unchecked(""), simple_dns::CLASS::IN, 0, simple_dns::rdata::RData::TXT(t));
                    let mut p = simple_dns::Packet::new_reply(0);
                    p.answers.push(rr);
                    (true, p.build_bytes_vec().map(|b| b.len() as i64 - 12 - 11).unwrap_or(-1))
                }
                Err(_) => (false, -1),
            };
            st.case(("cstr", via, n), ok);
            out.emit(json!({"ev": "CStrNew", "cls": "cstr-new", "via": via, "n": n, "ok": ok, "wire": wire}));
        }
        let add = TXT::new().with_string(&s).is_ok();
        out.emit(json!({"ev": "CStrNew", "cls": "cstr-new", "via": "txt_with_string", "n": n, "ok": add, "wire": if add { n as i64 + 1 } else { -1 }}));
    }
    out.finish(st.into_json("txt",
        "every string up to length L over {a ; = U+013B U+013D U+00E9 U+1F600} (TLC, Gen_Txt) through TXT::try_from(&str) / String::try_from / long_attributes; every attribute map with <=3 keys x absent/empty/non-empty values (TLC) through TXT::try_from(map) / attributes; texts of 0..5000 bytes with 1-4-byte characters straddling every multiple of 254/255; entries around the 255-byte limit; duplicate keys; character-strings of every length 0..300 through each constructor; non-trivial = non-empty input",
        false));
}
