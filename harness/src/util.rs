//! Shared plumbing: panic capture, counting allocator, sharded ndjson output.
use serde_json::{json, Value};
use std::alloc::{GlobalAlloc, Layout, System};
use std::cell::{Cell, RefCell};
use std::fs::File;
use std::io::{BufWriter, Write};
use std::panic::{catch_unwind, AssertUnwindSafe};
use std::path::{Path, PathBuf};

// ---------------------------------------------------------------- allocator meter
pub struct Meter;

thread_local! {
    static CUR: Cell<usize> = const { Cell::new(0) };
    static PEAK: Cell<usize> = const { Cell::new(0) };
    static ARMED: Cell<bool> = const { Cell::new(false) };
    static PANIC_AT: RefCell<Option<String>> = const { RefCell::new(None) };
    static IN_GUARDED: Cell<bool> = const { Cell::new(false) };
}

/// panics that happened on threads the harness does not guard (threads spawned by the library)
pub static FOREIGN_PANICS: std::sync::Mutex<Vec<String>> = std::sync::Mutex::new(Vec::new());

unsafe impl GlobalAlloc for Meter {
    unsafe fn alloc(&self, l: Layout) -> *mut u8 {
        let p = System.alloc(l);
        let _ = ARMED.try_with(|a| {
            if a.get() {
                CUR.with(|c| {
                    let v = c.get() + l.size();
                    c.set(v);
                    PEAK.with(|p| {
                        if v > p.get() {
                            p.set(v)
                        }
                    });
                });
            }
        });
        p
    }
    unsafe fn dealloc(&self, p: *mut u8, l: Layout) {
        let _ = ARMED.try_with(|a| {
            if a.get() {
                CUR.with(|c| c.set(c.get().saturating_sub(l.size())));
            }
        });
        System.dealloc(p, l)
    }
    unsafe fn realloc(&self, p: *mut u8, l: Layout, new: usize) -> *mut u8 {
        let q = System.realloc(p, l, new);
        let _ = ARMED.try_with(|a| {
            if a.get() {
                CUR.with(|c| {
                    let v = c.get().saturating_sub(l.size()) + new;
                    c.set(v);
                    PEAK.with(|p| {
                        if v > p.get() {
                            p.set(v)
                        }
                    });
                });
            }
        });
        q
    }
}

/// Run `f` with the calling thread's heap meter armed; returns (result, peak bytes requested).
pub fn metered<R>(f: impl FnOnce() -> R) -> (R, usize) {
    CUR.with(|c| c.set(0));
    PEAK.with(|c| c.set(0));
    ARMED.with(|a| a.set(true));
    let r = f();
    ARMED.with(|a| a.set(false));
    (r, PEAK.with(|p| p.get()))
}

// ---------------------------------------------------------------- panic capture
pub fn install_panic_hook() {
    std::panic::set_hook(Box::new(|info| {
        let at = info
            .location()
            .map(|l| format!("{}:{}", l.file(), l.line()))
            .unwrap_or_else(|| "?".into());
        let guarded_here = IN_GUARDED.try_with(|g| g.get()).unwrap_or(false);
        if !guarded_here {
            if let Ok(mut v) = FOREIGN_PANICS.lock() {
                v.push(at.rsplit("/repo/").next().unwrap_or(&at).to_string());
            }
        }
        let _ = PANIC_AT.try_with(|p| *p.borrow_mut() = Some(at));
    }));
}

/// Panics in the code under test are data: Err(location).
pub fn guarded<R>(f: impl FnOnce() -> R) -> Result<R, String> {
    ARMED.with(|a| {
        let _ = a;
    });
    let was = IN_GUARDED.with(|g| g.replace(true));
    let res = catch_unwind(AssertUnwindSafe(f));
    IN_GUARDED.with(|g| g.set(was));
    match res {
        Ok(r) => Ok(r),
        Err(_) => {
            ARMED.with(|a| a.set(false));
            let at = PANIC_AT.with(|p| p.borrow_mut().take()).unwrap_or_else(|| "?".into());
            // keep only the path relative to the repository
            let at = at.rsplit("/repo/").next().unwrap_or(&at).to_string();
            Err(at)
        }
    }
}

pub fn panic_json(at: &str) -> Value {
    json!({"tag": "panic", "at": at})
}

// ---------------------------------------------------------------- sharded output
pub struct Out {
    dir: PathBuf,
    shards: Vec<BufWriter<File>>,
    next: usize,
    pub events: u64,
}

impl Out {
    pub fn new(dir: &Path, n: usize) -> Out {
        std::fs::create_dir_all(dir).unwrap();
        let shards = (0..n)
            .map(|i| BufWriter::new(File::create(dir.join(format!("trace_{:02}.ndjson", i))).unwrap()))
            .collect();
        Out { dir: dir.to_path_buf(), shards, next: 0, events: 0 }
    }
    /// stateless event: round-robin
    pub fn emit(&mut self, v: Value) {
        let i = self.next;
        self.next = (self.next + 1) % self.shards.len();
        self.emit_to(i, v);
    }
    /// session event: caller picks the shard so that a session stays in one file
    pub fn emit_to(&mut self, shard: usize, v: Value) {
        let n = self.shards.len();
        let w = &mut self.shards[shard % n];
        serde_json::to_writer(&mut *w, &v).unwrap();
        w.write_all(b"\n").unwrap();
        self.events += 1;
    }
    pub fn nshards(&self) -> usize {
        self.shards.len()
    }
    pub fn finish(mut self, summary: Value) {
        for s in self.shards.iter_mut() {
            s.flush().unwrap();
        }
        let mut f = File::create(self.dir.join("summary.json")).unwrap();
        let mut s = summary;
        s["events"] = json!(self.events);
        f.write_all(serde_json::to_string_pretty(&s).unwrap().as_bytes()).unwrap();
    }
}

pub fn bytes_json(b: &[u8]) -> Value {
    Value::Array(b.iter().map(|x| json!(*x)).collect())
}

pub fn json_bytes(v: &Value) -> Vec<u8> {
    v.as_array().map(|a| a.iter().map(|x| x.as_u64().unwrap() as u8).collect()).unwrap_or_default()
}

pub struct Args {
    pub topic: String,
    pub tier: String,
    pub seed: u64,
    pub out: PathBuf,
    pub cases: Vec<PathBuf>,
    pub shards: usize,
    pub extra: Vec<String>,
}

pub fn parse_args() -> Args {
    let mut a = Args {
        topic: String::new(),
        tier: "quick".into(),
        seed: 1,
        out: PathBuf::from("out"),
        cases: vec![],
        shards: 8,
        extra: vec![],
    };
    let mut it = std::env::args().skip(1);
    a.topic = it.next().unwrap_or_default();
    while let Some(x) = it.next() {
        match x.as_str() {
            "--tier" => a.tier = it.next().unwrap(),
            "--seed" => a.seed = it.next().unwrap().parse().unwrap(),
            "--out" => a.out = PathBuf::from(it.next().unwrap()),
            "--cases" => a.cases.push(PathBuf::from(it.next().unwrap())),
            "--shards" => a.shards = it.next().unwrap().parse().unwrap(),
            _ => a.extra.push(x),
        }
    }
    a
}

// ---------------------------------------------------------------- coverage statistics
use std::collections::hash_map::DefaultHasher;
use std::collections::HashSet;
use std::hash::{Hash, Hasher};

#[derive(Default)]
pub struct Stats {
    pub evaluations: u64,
    pub sessions: u64,
    distinct: HashSet<u64>,
    pub counters: std::collections::BTreeMap<String, u64>,
}

impl Stats {
    /// record one evaluated case; `key` identifies the input, `nontrivial` per the topic's stated rule
    pub fn case<K: Hash>(&mut self, key: K, nontrivial: bool) {
        self.evaluations += 1;
        if nontrivial {
            let mut h = DefaultHasher::new();
            key.hash(&mut h);
            self.distinct.insert(h.finish());
        }
    }
    pub fn bump(&mut self, k: &str) {
        *self.counters.entry(k.to_string()).or_insert(0) += 1;
    }
    pub fn into_json(self, topic: &str, rule: &str, exhaustive: bool) -> Value {
        json!({"topic": topic, "evaluations": self.evaluations, "distinct_nontrivial": self.distinct.len(),
               "sessions": if self.sessions > 0 { self.sessions } else { self.evaluations },
               "rule": rule, "exhaustive": exhaustive, "counters": self.counters})
    }
}

/// run `f` with the heap meter temporarily disarmed (harness bookkeeping inside a metered region)
pub fn unmetered<R>(f: impl FnOnce() -> R) -> R {
    let was = ARMED.with(|a| a.replace(false));
    let cur = CUR.with(|c| c.get());
    let r = f();
    CUR.with(|c| c.set(cur));
    ARMED.with(|a| a.set(was));
    r
}
