//! C06: decode one name at a given offset of a buffer with the real crate (verif::parse_name hook).
use crate::util::*;
use rand::rngs::StdRng;
use rand::{Rng, SeedableRng};
use serde_json::{json, Value};
use simple_dns::verif::parse_name;
use std::io::BufRead;

pub fn decode_at(b: &[u8], at: usize) -> Value {
    match guarded(|| {
        parse_name(b, at).map(|(n, next)| {
            let labels: Vec<Value> = n.get_labels().iter().map(|l| bytes_json(l.verif_bytes())).collect();
            (labels, next)
        })
    }) {
        Ok(Ok((labels, next))) => json!(["ok", labels, next]),
        Ok(Err(_)) => json!(["err"]),
        Err(at) => json!(["panic", at]),
    }
}

fn emit(out: &mut Out, st: &mut Stats, cls: &str, b: &[u8], starts: &[usize]) {
    let r: Vec<Value> = starts.iter().map(|&at| decode_at(b, at)).collect();
    let nontrivial = r.iter().any(|x| x[0] == json!("ok") && x[1].as_array().map(|a| !a.is_empty()).unwrap_or(false));
    st.case(b, nontrivial);
    for x in &r {
        st.bump(x[0].as_str().unwrap());
    }
    out.emit(json!({"ev": "NameDecode", "cls": cls, "b": bytes_json(b), "at": starts, "r": r}));
}

fn label(n: usize, c: u8) -> Vec<u8> {
    let mut v = vec![n as u8];
    v.extend(std::iter::repeat(c).take(n));
    v
}

pub fn families() -> Vec<(String, Vec<u8>, Vec<usize>)> {
    let mut f: Vec<(String, Vec<u8>, Vec<usize>)> = vec![];
    // label length boundary 62..65, direct and through a pointer
    for n in [1usize, 62, 63, 64, 65, 127, 128, 191] {
        let mut b = label(n, b'a');
        b.push(0);
        let p = b.len();
        b.extend([0xC0, 0x00]);
        f.push((format!("label-len {n}"), b, vec![0, p]));
    }
    // re-entry: a pointer at P whose target's label ends ON the pointer's own first byte, so that decoding runs
    // on, in place, through the pointer's second byte (read as a length): the name is legal, the cursor of the
    // enclosing element still stops at P + 2
    for t in 1usize..=3 {
        for l in 1usize..=3 {
            let mut b = vec![b'a'; t];
            b.push(l as u8);
            b.extend(std::iter::repeat(b'x').take(l - 1));
            let p = b.len();
            b.push(0xC0);
            b.push(t as u8);
            b.extend(std::iter::repeat(b'y').take(t));
            b.push(0);
            b.extend([0, 1, 0, 1]);
            f.push((format!("re-entry t={t} l={l}"), b, vec![p]));
        }
    }
    // total name length 253..257 direct; and a leading label + pointer to a 193-byte tail
    for total in 250usize..=258 {
        let x = total - 194;
        let mut b = vec![];
        b.extend(label(63, b'a'));
        b.extend(label(63, b'b'));
        b.extend(label(63, b'c'));
        let mut direct = b.clone();
        direct.extend(label(x, b'd'));
        direct.push(0);
        f.push((format!("name-total {total} direct"), direct, vec![0]));
        // tail at offset 0 (63,63,63,root = 193 bytes), then label(x) + pointer to 0
        b.push(0);
        let at = b.len();
        b.extend(label(x, b'd'));
        b.extend([0xC0, 0x00]);
        f.push((format!("name-total {total} via-pointer"), b, vec![0, at]));
    }
    // many 1-byte labels: 127 labels = 255 bytes, 128 labels = 257 bytes
    for k in [126usize, 127, 128] {
        let mut b = vec![];
        for _ in 0..k {
            b.extend([1, b'x']);
        }
        b.push(0);
        f.push((format!("labels-count {k}"), b, vec![0, 2]));
    }
    // pointer shapes
    let shapes: Vec<(&str, Vec<u8>, Vec<usize>)> = vec![
        ("self-pointer", vec![0xC0, 0x00], vec![0]),
        ("self-pointer-at-2", vec![0, 0, 0xC0, 0x02], vec![2]),
        ("forward-pointer", vec![0xC0, 0x02, 1, b'a', 0], vec![0]),
        ("mutual-pointers", vec![0xC0, 0x02, 0xC0, 0x00], vec![0, 2]),
        ("pointer-to-last-byte", vec![1, b'a', 0, 0xC0, 0x04, 0], vec![3]),
        ("pointer-outside", vec![1, b'a', 0, 0xC0, 0x40], vec![3]),
        ("pointer-outside-far", vec![1, b'a', 0, 0xFF, 0xFF], vec![3]),
        ("pointer-truncated", vec![1, b'a', 0, 0xC0], vec![3]),
        ("pointer-into-label-middle", vec![3, 1, b'a', 0, 0xC0, 0x01], vec![4]),
        ("label-then-cycle", vec![1, b'a', 0xC0, 0x00], vec![0, 2]),
        ("label-run-to-buffer-end-after-pointer", vec![5, b'a', 0xC0, 0x00, b'x', b'y'], vec![2]),
        ("label-run-to-buffer-end-after-pointer-2", vec![2, 0xC0, 0x00], vec![1]),
        ("label-run-ends-exactly", vec![1, b'a', 1, b'b'], vec![0, 2]),
        ("pointer-to-pointer", vec![1, b'a', 0, 0xC0, 0x00, 0xC0, 0x03], vec![5]),
        // self-overlapping walks: the label reached through the pointer covers the pointer's own bytes
        ("overlap label-ends-on-pointer-byte", vec![0xAA, 1, 0xC0, 1, b'a', 0], vec![2]),
        ("overlap label-covers-pointer", vec![3, b'x', 0xC0, 0x00, 0, 0], vec![2]),
        ("overlap label-covers-pointer-2", vec![0, 2, 0xC0, 1, 1, b'z', 0], vec![2, 1]),
        ("overlap pointer-low-byte-is-length", vec![1, 0xC0, 2, b'p', b'q', 0xC0, 0x00, 0], vec![5]),
        ("overlap chain-through-own-bytes", vec![1, b'a', 0xC0, 0, 0xC0, 2, 0], vec![4]),
        ("reserved-01", vec![0x40, 0], vec![0]),
        ("reserved-10", vec![0x80, 0], vec![0]),
        ("reserved-01-after-label", vec![1, b'a', 0x7F, 0], vec![0]),
        ("root-only", vec![0], vec![0, 1]),
        ("empty", vec![], vec![0]),
    ];
    for (n, b, s) in shapes {
        f.push((format!("shape {n}"), b, s));
    }
    // pointer chains of k hops ending in a real name
    for k in [1usize, 2, 8, 64, 126, 127, 128, 129, 300, 2000] {
        let mut b = vec![1, b'a', 0];
        let mut last = 0usize;
        for _ in 0..k {
            let here = b.len();
            b.extend([0xC0 | ((last >> 8) as u8), (last & 0xFF) as u8]);
            last = here;
        }
        f.push((format!("pointer-chain {k}"), b, vec![last]));
    }
    f
}

pub fn run(a: &Args) {
    let mut out = Out::new(&a.out, a.shards);
    let mut st = Stats::default();
    // direction 1: cases enumerated by TLC (Gen_NameWire): every start offset
    let mut gen = 0u64;
    if let Some(p) = a.cases.first() {
        for line in std::io::BufReader::new(std::fs::File::open(p).unwrap()).lines() {
            let v: Value = serde_json::from_str(&line.unwrap()).unwrap();
            let b = json_bytes(&v["b"]);
            let starts: Vec<usize> = (0..=b.len()).collect();
            emit(&mut out, &mut st, "gen-exhaustive", &b, &starts);
            gen += 1;
        }
    }
    // real-constant boundary families
    for (cls, b, starts) in families() {
        emit(&mut out, &mut st, &cls, &b, &starts);
    }
    // seeded random buffers with pointer-heavy content
    let mut rng = StdRng::seed_from_u64(a.seed);
    let n = if a.tier == "thorough" { 60000 } else { 12000 };
    for _ in 0..n {
        let len = if rng.gen_range(0..3) == 0 { rng.gen_range(1..48usize) } else { rng.gen_range(3..12usize) };
        let mut b = Vec::with_capacity(len);
        while b.len() < len {
            match rng.gen_range(0..10) {
                0 => b.push(0),
                1..=4 => {
                    let l = rng.gen_range(1..6usize);
                    b.push(l as u8);
                    for _ in 0..l {
                        b.push(rng.gen_range(b'a'..=b'e'));
                    }
                }
                5..=7 => {
                    b.push(0xC0);
                    b.push(rng.gen_range(0..(len as u8 + 2)));
                }
                8 => b.push(rng.gen()),
                _ => b.push([63u8, 64, 0x80, 0xBF, 0xFF][rng.gen_range(0..5)]),
            }
        }
        b.truncate(len);
        let starts: Vec<usize> = (0..=b.len()).collect();
        emit(&mut out, &mut st, "random", &b, &starts);
    }
    st.counters.insert("gen_cases".into(), gen);
    out.finish(st.into_json("name",
        "every buffer enumerated by TLC (Gen_NameWire: all buffers up to L over the boundary alphabet) decoded at every start offset; real-constant families (label 62..65, name 250..258 direct and via pointer, pointer shapes and chains); seeded random pointer-heavy buffers; non-trivial = some start decodes to a non-root name",
        false));
}

/// step-level binding: one NameBegin / NameStep* / NameEnd session per (buffer, start)
pub fn run_steps(a: &Args) {
    let mut out = Out::new(&a.out, a.shards);
    let mut st = Stats::default();
    let mut session = 0usize;
    let mut one = |out: &mut Out, st: &mut Stats, b: &[u8], at: usize| {
        simple_dns::verif::arm_trace();
        let r = guarded(|| parse_name(b, at).map(|_| ()));
        // (loop-arm records only: 1 label, 2 pointer, 3 terminator; the call-start record 4 belongs to other rules)
        let steps: Vec<_> = simple_dns::verif::take_trace().into_iter().filter(|s| (1..=3).contains(&s[0])).collect();
        let shard = session;
        session += 1;
        out.emit_to(shard, json!({"ev": "NameBegin", "b": bytes_json(b), "at": at}));
        for s in &steps {
            out.emit_to(shard, json!({"ev": "NameStep", "arm": s[0], "pos": s[1], "ptr": s[2], "size": s[3]}));
        }
        let outc = match r {
            Ok(Ok(())) => "ok",
            Ok(Err(_)) => "err",
            Err(_) => "panic",
        };
        out.emit_to(shard, json!({"ev": "NameEnd", "out": outc}));
        st.case((b, at), steps.len() > 1);
        st.sessions += 1;
    };
    if let Some(p) = a.cases.first() {
        for line in std::io::BufReader::new(std::fs::File::open(p).unwrap()).lines() {
            let v: Value = serde_json::from_str(&line.unwrap()).unwrap();
            let b = json_bytes(&v["b"]);
            for at in 0..=b.len() {
                one(&mut out, &mut st, &b, at);
            }
        }
    }
    for (_, b, starts) in families() {
        for at in starts {
            one(&mut out, &mut st, &b, at);
        }
    }
    out.finish(st.into_json("namesteps",
        "every (buffer, start) of Gen_NameWire and of the real-constant families: the loop-arm events recorded by the hook inside Name::parse, replayed one TLC step per event against the Impl model MC_NameWire; non-trivial = more than one step",
        false));
}
