//! C16: owned copies / clones equal their originals; equality is the documented one; equal values hash equally.
use crate::packet::load_cases;
use crate::proj::*;
use crate::util::*;
use serde_json::{json, Value};
use simple_dns::rdata::RData;
use simple_dns::{Name, Packet, Question, ResourceRecord, CLASS};
use simple_mdns::InstanceInformation;
use std::collections::hash_map::DefaultHasher;
use std::hash::{Hash, Hasher};
use std::net::{IpAddr, Ipv4Addr, Ipv6Addr};

fn h<T: Hash>(t: &T) -> Value {
    let mut s = DefaultHasher::new();
    t.hash(&mut s);
    bytes_json(&s.finish().to_be_bytes())
}

fn rr_bytes(rr: &ResourceRecord) -> Vec<u8> {
    let mut p = Packet::new_reply(0);
    p.answers.push(rr.clone());
    p.build_bytes_vec().unwrap_or_default()
}
fn name_bytes(n: &Name) -> Vec<u8> {
    rr_bytes(&ResourceRecord::new(n.clone(), CLASS::IN, 0, RData::Empty(simple_dns::TYPE::A)))
}
fn rdata_bytes(r: &RData) -> Vec<u8> {
    rr_bytes(&ResourceRecord::new(Name::new_unchecked(""), CLASS::IN, 0, r.clone()))
}
fn q_bytes(q: &Question) -> Vec<u8> {
    let mut p = Packet::new_query(0);
    p.questions.push(q.clone());
    p.build_bytes_vec().unwrap_or_default()
}

struct Cmp<'a> {
    out: &'a mut Out,
    st: &'a mut Stats,
}

impl<'a> Cmp<'a> {
    #[allow(clippy::too_many_arguments)]
    fn emit(&mut self, cls: &str, kind: &str, how: &str, a: Value, b: Value, eq: Option<bool>, ha: Value, hb: Value, ba: Vec<u8>, bb: Vec<u8>) {
        self.st.case((kind.to_string(), how.to_string(), a.to_string(), b.to_string()), true);
        self.st.bump(&format!("{kind}.{how}"));
        self.out.emit(json!({"ev": "ValueCmp", "cls": format!("{cls} {kind} {how}"), "kind": kind, "how": how, "a": a, "b": b,
            "haseq": eq.is_some(), "eq": eq.unwrap_or(false), "ha": ha, "hb": hb, "ba": bytes_json(&ba), "bb": bytes_json(&bb), "panicked": false}));
    }
    fn name(&mut self, cls: &str, how: &str, a: &Name, b: &Name) {
        self.emit(cls, "name", how, name_json(a), name_json(b), Some(a == b), h(a), h(b), name_bytes(a), name_bytes(b));
    }
    fn rdata(&mut self, cls: &str, how: &str, a: &RData, b: &RData) {
        let (ta, fa) = project_rdata(a);
        let (tb, fb) = project_rdata(b);
        self.emit(cls, "rdata", how, json!([ta, fa]), json!([tb, fb]), Some(a == b), h(a), h(b), rdata_bytes(a), rdata_bytes(b));
    }
    fn rr(&mut self, cls: &str, how: &str, a: &ResourceRecord, b: &ResourceRecord) {
        self.emit(cls, "rr", how, project_rr(a), project_rr(b), Some(a == b), h(a), h(b), rr_bytes(a), rr_bytes(b));
    }
    fn question(&mut self, cls: &str, how: &str, a: &Question, b: &Question) {
        self.emit(cls, "question", how, project_question(a), project_question(b), None, json!([]), json!([]), q_bytes(a), q_bytes(b));
    }
}

fn names_in<'x>(r: &'x RData<'x>) -> Vec<&'x Name<'x>> {
    match r {
        RData::MX(m) => vec![&m.exchange],
        RData::SOA(s) => vec![&s.mname, &s.rname],
        RData::SRV(s) => vec![&s.target],
        RData::NS(n) => vec![&n.0],
        RData::CNAME(n) => vec![&n.0],
        RData::PTR(n) => vec![&n.0],
        RData::MINFO(m) => vec![&m.rmailbox, &m.emailbox],
        RData::RP(r) => vec![&r.mbox, &r.txt],
        RData::NSEC(n) => vec![&n.next_name],
        _ => vec![],
    }
}

fn ip_json(ip: &IpAddr) -> Value {
    match ip {
        IpAddr::V4(a) => {
            let mut v = vec![4u8];
            v.extend(a.octets());
            bytes_json(&v)
        }
        IpAddr::V6(a) => {
            let mut v = vec![6u8];
            v.extend(a.octets());
            bytes_json(&v)
        }
    }
}

fn inst_json(i: &InstanceInformation) -> Value {
    let mut ips: Vec<&IpAddr> = i.ip_addresses.iter().collect();
    ips.sort();
    let mut ports: Vec<&u16> = i.ports.iter().collect();
    ports.sort();
    let mut attrs: Vec<(&String, &Option<String>)> = i.attributes.iter().collect();
    attrs.sort();
    json!({"name": i.unescaped_instance_name().chars().map(|c| c as u32).collect::<Vec<u32>>(),
        "ips": ips.iter().map(|x| ip_json(x)).collect::<Vec<_>>(), "ports": ports,
        "attrs": attrs.iter().map(|(k, v)| json!([k.chars().map(|c| c as u32).collect::<Vec<u32>>(), match v { None => json!(["none"]), Some(s) => json!(["some", s.chars().map(|c| c as u32).collect::<Vec<u32>>()]) }])).collect::<Vec<_>>()})
}

fn ip_from(v: &Value) -> IpAddr {
    let b = json_bytes(v);
    if b[0] == 4 {
        IpAddr::V4(Ipv4Addr::new(b[1], b[2], b[3], b[4]))
    } else {
        {
            let mut o = [0u8; 16];
            o.copy_from_slice(&b[1..17]);
            IpAddr::V6(Ipv6Addr::from(o))
        }
    }
}

pub fn run(a: &Args) {
    let mut out = Out::new(&a.out, a.shards);
    let mut st = Stats::default();
    {
        let mut c = Cmp { out: &mut out, st: &mut st };
        // the packets of the builder machine (random walks) and, systematically, one packet per (record type, value
        // tuple) of the RDATA schemas' bounded domains (Gen_RData)
        let mut pkts: Vec<Value> = load_cases(a, 0).into_iter().map(|c| c["pkt"].clone()).collect();
        pkts.extend(load_cases(a, 2).into_iter().filter(|c| c["pkt"].as_array().map(|v| !v.is_empty()).unwrap_or(false)).map(|c| c["pkt"][0].clone()));
        for pkt in pkts {
            let built = match construct_packet(&pkt) {
                Ok(p) => p,
                Err(why) => {
                    eprintln!("construct failed: {why}");
                    std::process::exit(2);
                }
            };
            let bytes = match built.build_bytes_vec_compressed() {
                Ok(b) => b,
                Err(_) => continue,
            };
            let parsed = match Packet::parse(&bytes) {
                Ok(p) => p,
                Err(_) => continue,
            };
            for (src, p) in [("built", &built), ("parsed", &parsed)] {
                for q in &p.questions {
                    c.question(src, "own", q, &q.clone().into_owned());
                    c.question(src, "clone", q, &q.clone());
                    c.name(src, "own", &q.qname, &q.qname.clone().into_owned());
                }
                for rr in p.answers.iter().chain(&p.name_servers).chain(&p.additional_records) {
                    c.rr(src, "own", rr, &rr.clone().into_owned());
                    c.rr(src, "clone", rr, &rr.clone());
                    c.rdata(src, "own", &rr.rdata, &rr.rdata.clone().into_owned());
                    c.rdata(src, "clone", &rr.rdata, &rr.rdata.clone());
                    c.name(src, "own", &rr.name, &rr.name.clone().into_owned());
                    c.name(src, "clone", &rr.name, &rr.name.clone());
                    for n in names_in(&rr.rdata) {
                        c.name(src, "own", n, &n.clone().into_owned());
                    }
                    // TTL and cache-flush are not part of record equality: equal records must hash equally
                    let mut other = rr.clone();
                    other.ttl = rr.ttl.wrapping_add(1);
                    other.cache_flush = !rr.cache_flush;
                    c.rr(src, "ttl-cf-differs", rr, &other);
                    // a record that differs in its class or owner is a different record
                    let mut other = rr.clone();
                    other.class = if rr.class == CLASS::IN { CLASS::CH } else { CLASS::IN };
                    c.rr(src, "differs", rr, &other);
                }
            }
            // borrowed from the receive buffer vs built from parts
            for (x, y) in built.answers.iter().zip(&parsed.answers).chain(built.name_servers.iter().zip(&parsed.name_servers)).chain(built.additional_records.iter().zip(&parsed.additional_records)) {
                c.rr("pair", "parsed-vs-built", x, y);
                c.rdata("pair", "parsed-vs-built", &x.rdata, &y.rdata);
                c.name("pair", "parsed-vs-built", &x.name, &y.name);
            }
            // names against each other: equality is label-wise
            let names: Vec<&Name> = built.questions.iter().map(|q| &q.qname).chain(built.answers.iter().map(|r| &r.name)).collect();
            for (i, x) in names.iter().enumerate() {
                for y in names.iter().skip(i + 1).take(2) {
                    c.name("pair", "differs", x, y);
                }
            }
        }
    }
    // values built from parts that the packet generator cannot express: a TXT without any character-string
    // (TXT::new / default), TXTs from every convenience constructor, records without RDATA, opaque records with
    // supported and unsupported type codes, a record with typed SvcParams -- the owned form and the clone of each
    {
        use simple_dns::rdata::{HTTPS, NULL, SVCB, TXT};
        use simple_dns::{CharacterString, TYPE};
        use std::convert::TryFrom;
        let mut c = Cmp { out: &mut out, st: &mut st };
        let mut parts: Vec<RData<'static>> = vec![RData::TXT(TXT::new()), RData::TXT(TXT::default())];
        for t in ["", "a", "k=v"] {
            if let Ok(x) = TXT::new().with_string(t) {
                parts.push(RData::TXT(x));
            }
        }
        let long: &'static str = Box::leak("x".repeat(600).into_boxed_str());
        if let Ok(x) = TXT::try_from(long) {
            parts.push(RData::TXT(x));
        }
        let mut m = std::collections::HashMap::new();
        m.insert("k".to_string(), Some("v".to_string()));
        m.insert("flag".to_string(), None);
        if let Ok(x) = TXT::try_from(m) {
            parts.push(RData::TXT(x));
        }
        parts.push(RData::TXT(TXT::new().with_char_string(CharacterString::new(b"").unwrap())));
        for t in [TYPE::A, TYPE::TXT, TYPE::SRV, TYPE::NULL, TYPE::Unknown(65280)] {
            parts.push(RData::Empty(t));
        }
        for code in [0u16, 1, 10, 16, 99, 65280] {
            parts.push(RData::NULL(code, NULL::new(&[1, 2, 3]).unwrap()));
        }
        let mut s = SVCB::new(1, Name::new_unchecked("svc.example"));
        s.set_port(443);
        s.set_no_default_alpn();
        let _ = s.set_ipv4hint([0x0a000001u32]);
        parts.push(RData::SVCB(s.clone()));
        parts.push(RData::HTTPS(HTTPS(s)));
        for rd in &parts {
            c.rdata("built-parts", "own", rd, &rd.clone().into_owned());
            c.rdata("built-parts", "clone", rd, &rd.clone());
            let rr = ResourceRecord::new(Name::new_unchecked("p.example"), CLASS::IN, 30, rd.clone());
            c.rr("built-parts", "own", &rr, &rr.clone().into_owned());
            c.rr("built-parts", "clone", &rr, &rr.clone());
        }
    }
    // the same members in a different order, for every RDATA whose public fields hold a collection: whatever
    // equality says about the pair, equal values must hash equally (EqHash; what equality says is not judged)
    {
        use simple_dns::rdata::{TypeBitMap, NSEC, SVCB, TXT};
        let mut c = Cmp { out: &mut out, st: &mut st };
        let win = |w: u8, b: &[u8]| TypeBitMap { window_block: w, bitmap: b.to_vec().into() };
        let orders: Vec<(Vec<TypeBitMap<'static>>, Vec<TypeBitMap<'static>>)> = vec![
            (vec![win(0, &[0x40]), win(1, &[0x01])], vec![win(1, &[0x01]), win(0, &[0x40])]),
            (vec![win(0, &[0x40]), win(1, &[0x01]), win(255, &[0x80])], vec![win(255, &[0x80]), win(0, &[0x40]), win(1, &[0x01])]),
            (vec![win(0, &[0x40]), win(1, &[0x01]), win(2, &[0x02])], vec![win(0, &[0x40]), win(2, &[0x02]), win(1, &[0x01])]),
        ];
        let mut pairs: Vec<(RData<'static>, RData<'static>)> = vec![];
        for (x, y) in orders {
            pairs.push((
                RData::NSEC(NSEC { next_name: Name::new_unchecked("next.example"), type_bit_maps: x }),
                RData::NSEC(NSEC { next_name: Name::new_unchecked("next.example"), type_bit_maps: y }),
            ));
        }
        if let (Ok(x), Ok(y)) = (TXT::new().with_string("a=1").and_then(|t| t.with_string("b=2")), TXT::new().with_string("b=2").and_then(|t| t.with_string("a=1"))) {
            pairs.push((RData::TXT(x), RData::TXT(y)));
        }
        let mut s1 = SVCB::new(1, Name::new_unchecked("svc.example"));
        s1.set_port(443);
        let _ = s1.set_ipv4hint([0x0a000001u32]);
        let _ = s1.set_param(65000, vec![1u8]);
        let mut s2 = SVCB::new(1, Name::new_unchecked("svc.example"));
        let _ = s2.set_param(65000, vec![1u8]);
        let _ = s2.set_ipv4hint([0x0a000001u32]);
        s2.set_port(443);
        pairs.push((RData::SVCB(s1), RData::SVCB(s2)));
        for (x, y) in &pairs {
            c.rdata("built-parts", "reordered", x, y);
            let rx = ResourceRecord::new(Name::new_unchecked("p.example"), CLASS::IN, 30, x.clone());
            let ry = ResourceRecord::new(Name::new_unchecked("p.example"), CLASS::IN, 30, y.clone());
            c.rr("built-parts", "reordered", &rx, &ry);
        }
    }
    // set-valued instance information: same members inserted in different orders (cases from TLC)
    for case in load_cases(a, 1) {
        let build = |ips: &Value, ports: &Value, attrs_rev: bool| {
            let mut i = InstanceInformation::new("i".to_string());
            for ip in ips.as_array().unwrap() {
                i = i.with_ip_address(ip_from(ip));
            }
            for p in ports.as_array().unwrap() {
                i = i.with_port(p.as_u64().unwrap() as u16);
            }
            let attrs = [("k1", Some("v")), ("k2", None), ("k3", Some(""))];
            if attrs_rev {
                for (k, v) in attrs.iter().rev() {
                    i = i.with_attribute(k.to_string(), v.map(|s| s.to_string()));
                }
            } else {
                for (k, v) in attrs.iter() {
                    i = i.with_attribute(k.to_string(), v.map(|s| s.to_string()));
                }
            }
            i
        };
        let x = build(&case["ia"], &case["pa"], false);
        let y = build(&case["ib"], &case["pb"], true);
        st.case(("inst", case.to_string()), true);
        st.bump("instance.order");
        out.emit(json!({"ev": "ValueCmp", "cls": "instance order", "kind": "instance", "how": "order", "a": inst_json(&x), "b": inst_json(&y),
            "haseq": true, "eq": x == y, "ha": h(&x), "hb": h(&y), "ba": [], "bb": [], "panicked": false}));
        let z = x.clone();
        out.emit(json!({"ev": "ValueCmp", "cls": "instance clone", "kind": "instance", "how": "clone", "a": inst_json(&x), "b": inst_json(&z),
            "haseq": true, "eq": x == z, "ha": h(&x), "hb": h(&z), "ba": [], "bb": [], "panicked": false}));
        let w = y.clone().with_port(9);
        out.emit(json!({"ev": "ValueCmp", "cls": "instance differs", "kind": "instance", "how": "differs", "a": inst_json(&x), "b": inst_json(&w),
            "haseq": true, "eq": x == w, "ha": h(&x), "hb": h(&w), "ba": [], "bb": [], "panicked": false}));
    }
    out.finish(st.into_json("values",
        "for every question, record, RDATA and name of every packet of Gen_Packet, both as built from parts and as parsed from a receive buffer: into_owned and clone compared with the original (projection, ==, serialised bytes), parsed-vs-built pairs, records differing only in TTL/cache-flush, records differing in class; instance information built by inserting the same members in every order (TLC, Gen_Instance); non-trivial = any comparison",
        false));
}
