//! C17: textual name API.
use crate::util::*;
use serde_json::{json, Value};
use simple_dns::{Label, Name};
use std::io::BufRead;

fn labels_json(n: &Name) -> Vec<Value> {
    n.get_labels().iter().map(|l| bytes_json(l.verif_bytes())).collect()
}

fn cps(s: &str) -> Vec<u32> {
    s.chars().map(|c| c as u32).collect()
}

fn name_new(out: &mut Out, st: &mut Stats, cls: &str, text: &str) {
    let res = guarded(|| {
        Name::new(text).map(|n| {
            let disp = n.to_string();
            let again = Name::new(&disp).map(|m| m == n).unwrap_or(false);
            json!(["ok", labels_json(&n), cps(&disp), again])
        })
    });
    let o = match res {
        Ok(Ok(v)) => v,
        Ok(Err(_)) => json!(["err"]),
        Err(at) => json!(["panic", at]),
    };
    st.case(("new", text), o[0] == json!("ok") && !text.is_empty());
    st.bump(o[0].as_str().unwrap());
    out.emit(json!({"ev": "NameNew", "cls": cls, "s": cps(text), "out": o}));
}

fn name_of(labels: &[Vec<u8>]) -> Name<'static> {
    let ls: Vec<Label<'static>> = labels.iter().map(|l| Label::new_unchecked(l.clone())).collect();
    Name::new_with_labels(&ls).into_owned()
}

fn rel(out: &mut Out, st: &mut Stats, cls: &str, x: &[Vec<u8>], y: &[Vec<u8>]) {
    let (nx, ny) = (name_of(x), name_of(y));
    let r = guarded(|| {
        let sub = nx.is_subdomain_of(&ny);
        let w = match nx.without(&ny) {
            Some(n) => json!(["some", labels_json(&n)]),
            None => json!(["none"]),
        };
        (sub, w, nx.is_link_local())
    });
    let (sub, w, ll) = r.unwrap_or((false, json!(["panic"]), false));
    st.case(("rel", x, y), true);
    let xs: Vec<Value> = x.iter().map(|l| bytes_json(l)).collect();
    let ys: Vec<Value> = y.iter().map(|l| bytes_json(l)).collect();
    out.emit(json!({"ev": "NameRel", "cls": cls, "x": xs, "y": ys, "sub": sub, "without": w, "ll": ll}));
}

pub fn run(a: &Args) {
    let mut out = Out::new(&a.out, a.shards);
    let mut st = Stats::default();
    let mut gen = 0u64;
    if let Some(p) = a.cases.first() {
        for line in std::io::BufReader::new(std::fs::File::open(p).unwrap()).lines() {
            let v: Value = serde_json::from_str(&line.unwrap()).unwrap();
            let text: String = v["s"].as_array().unwrap().iter().map(|c| char::from_u32(c.as_u64().unwrap() as u32).unwrap()).collect();
            name_new(&mut out, &mut st, "gen-exhaustive", &text);
            gen += 1;
        }
    }
    // label lengths 0..70 (alone, and as the first / last of three labels)
    for n in 0..=70usize {
        let l = "a".repeat(n);
        name_new(&mut out, &mut st, &format!("label-len {n}"), &l);
        name_new(&mut out, &mut st, &format!("label-len {n} mid"), &format!("x.{l}.y"));
        let mut b = vec![b'a'; n];
        let ok = guarded(|| Label::new(b.clone()).is_ok()).unwrap_or(false);
        out.emit(json!({"ev": "LabelNew", "cls": "label-new", "b": bytes_json(&b), "ok": ok}));
        if n > 0 {
            for c in [b'-', b'_', b'.', 0xC3, b'A', b'0', b' '] {
                for pos in [0, n / 2, n - 1] {
                    let save = b[pos];
                    b[pos] = c;
                    let ok = guarded(|| Label::new(b.clone()).is_ok()).unwrap_or(false);
                    st.case(("label", b.clone()), ok);
                    out.emit(json!({"ev": "LabelNew", "cls": "label-new", "b": bytes_json(&b), "ok": ok}));
                    b[pos] = save;
                }
            }
        }
    }
    // encoded length around 255: k labels of 63 + one of x, with and without trailing / doubled dots
    for total in 250usize..=260 {
        let x = total - 194;
        let base = format!("{}.{}.{}.{}", "a".repeat(63), "b".repeat(63), "c".repeat(63), "d".repeat(x.min(70)));
        name_new(&mut out, &mut st, &format!("name-total {total}"), &base);
        name_new(&mut out, &mut st, &format!("name-total {total} trailing-dot"), &format!("{base}."));
        name_new(&mut out, &mut st, &format!("name-total {total} double-dot"), &base.replacen('.', "..", 1));
    }
    for k in [120usize, 126, 127, 128, 130] {
        let t = vec!["a"; k].join(".");
        name_new(&mut out, &mut st, &format!("labels-count {k}"), &t);
    }
    // suffix algebra: all ordered pairs of names with <= 4 labels over {a, b}
    let mut names: Vec<Vec<Vec<u8>>> = vec![vec![]];
    let mut frontier: Vec<Vec<Vec<u8>>> = vec![vec![]];
    for _ in 0..4 {
        let mut next = vec![];
        for n in &frontier {
            for c in [b"a".to_vec(), b"b".to_vec()] {
                let mut m = n.clone();
                m.push(c);
                next.push(m);
            }
        }
        names.extend(next.clone());
        frontier = next;
    }
    for x in &names {
        for y in &names {
            rel(&mut out, &mut st, "pairs-ab", x, y);
        }
    }
    // multi-byte labels that share a byte suffix but are different labels
    let odd: Vec<Vec<Vec<u8>>> = vec![
        vec![b"ab".to_vec(), b"c".to_vec()], vec![b"b".to_vec(), b"c".to_vec()], vec![b"a".to_vec(), b"b".to_vec(), b"c".to_vec()],
        vec![b"c".to_vec()], vec![b"bc".to_vec()], vec![b"a".to_vec(), b"bc".to_vec()], vec![b"C".to_vec()], vec![b"b".to_vec(), b"C".to_vec()],
    ];
    for x in &odd {
        for y in &odd {
            rel(&mut out, &mut st, "pairs-odd", x, y);
        }
    }
    // link-local: every case variant of "local", near misses, as last / non-last label
    for m in 0u32..32 {
        let l: Vec<u8> = b"local".iter().enumerate().map(|(i, c)| if m & (1 << i) != 0 { c.to_ascii_uppercase() } else { *c }).collect();
        rel(&mut out, &mut st, "link-local", &[b"x".to_vec(), l.clone()], &[l.clone()]);
        rel(&mut out, &mut st, "link-local", &[l.clone(), b"x".to_vec()], &[b"x".to_vec()]);
        rel(&mut out, &mut st, "link-local", &[l.clone()], &[]);
    }
    for near in ["loca", "locals", "xlocal", "l0cal", "local\u{0}", "LOCAL", "lOcAl"] {
        rel(&mut out, &mut st, "link-local", &[b"a".to_vec(), near.as_bytes().to_vec()], &[]);
    }
    rel(&mut out, &mut st, "link-local", &[], &[]);
    st.counters.insert("gen_cases".into(), gen);
    out.finish(st.into_json("nametext",
        "every string enumerated by TLC (Gen_NameText: all strings up to L over {a,A,1,-,_,.,\\,e-acute}) through Name::new/Display/re-creation; label lengths 0..70 with boundary characters in first/middle/last position through Label::new; encoded lengths 250..260; all 31x31 ordered pairs of names over {a,b} (<=4 labels) plus byte-suffix-sharing labels through is_subdomain_of/without; all case variants of 'local'; non-trivial = accepted non-empty text / any relation pair",
        false));
}
