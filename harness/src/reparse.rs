//! C11: every byte string the parser accepts survives re-serialisation (plain and compressed).
use crate::msg::*;
use crate::packet::load_cases;
use crate::util::*;
use rand::rngs::StdRng;
use rand::{Rng, SeedableRng};
use serde_json::json;

pub fn run(a: &Args) {
    let mut out = Out::new(&a.out, a.shards);
    let mut st = Stats::default();
    let mut bases: Vec<(String, Vec<u8>)> = vec![];
    let names = ["rdata", "framing", "edns", "inspect", "layouts-1", "layouts-2"];
    for idx in 0..a.cases.len() {
        for c in load_cases(a, idx) {
            let msg = json_bytes(&c["msg"]);
            let cls = format!("reparse {}", names.get(idx).unwrap_or(&"gen"));
            match reparse_event(&cls, &msg) {
                Some(e) => {
                    st.case(&msg, true);
                    out.emit(e);
                }
                None => st.case(&msg, false),
            }
            if idx < 3 {
                bases.push((cls, msg));
            }
        }
    }
    // accepted outputs of the malformed-input generators: +-1 on every byte and random mutations
    let mut rng = StdRng::seed_from_u64(a.seed);
    let thorough = a.tier == "thorough";
    let mut accepted = 0u64;
    for (i, (cls, msg)) in bases.iter().enumerate() {
        if msg.len() > 150 || (!thorough && i % 3 != 0) {
            continue;
        }
        for pos in 0..msg.len() {
            for d in [1u8, 255] {
                let mut m = msg.clone();
                m[pos] = m[pos].wrapping_add(d);
                if let Some(e) = reparse_event(&format!("{cls} perturbed"), &m) {
                    st.case(&m, true);
                    accepted += 1;
                    out.emit(e);
                }
            }
        }
    }
    // names that differ from another name of the message only in letter case: flip the case of every ASCII letter
    // of every base message in turn (names are compared byte-wise; whatever the parser showed must come back)
    for (i, (cls, msg)) in bases.iter().enumerate() {
        if msg.len() > 150 || (!thorough && i % 2 != 0) {
            continue;
        }
        for pos in 12..msg.len() {
            if msg[pos].is_ascii_alphabetic() {
                let mut m = msg.clone();
                m[pos] ^= 0x20;
                if let Some(e) = reparse_event(&format!("{cls} case-flip"), &m) {
                    st.case(&m, true);
                    accepted += 1;
                    out.emit(e);
                }
            }
        }
    }
    for _ in 0..(if thorough { 40000 } else { 4000 }) {
        let (cls, base) = &bases[rng.gen_range(0..bases.len())];
        let mut m = base.clone();
        for _ in 0..rng.gen_range(1..3) {
            let p = rng.gen_range(0..m.len());
            m[p] = rng.gen();
        }
        if let Some(e) = reparse_event(&format!("{cls} random-mutation"), &m) {
            st.case(&m, true);
            accepted += 1;
            out.emit(e);
        }
    }
    // names nested one label deeper each time (a, b.a, c.b.a, ...) sent uncompressed: the compressed
    // re-serialisation writes each as "label + pointer to the previous one", a chain as deep as the name has labels
    for depth in [8usize, 64, 65, 100, 126] {
        let mut m = vec![0u8, 7, 0x80, 0];
        m.extend([0, 0]);
        m.extend((depth as u16).to_be_bytes());
        m.extend([0, 0, 0, 0]);
        for d in 1..=depth {
            for k in (0..d).rev() {
                m.push(1);
                m.push(b'a' + (k % 26) as u8);
            }
            m.push(0);
            m.extend([0, 1, 0, 1, 0, 0, 0, 9, 0, 4, 10, 0, (d >> 8) as u8, d as u8]);
        }
        if let Some(e) = reparse_event(&format!("reparse nested-names depth={depth}"), &m) {
            st.case(&m, true);
            accepted += 1;
            out.emit(e);
        }
    }
    // received messages larger than 16 KiB whose names first appear around the largest offset a pointer can
    // express (the recipes of the compression checks, sent uncompressed): re-serialised with compression, re-parsed
    let mut ts: Vec<(usize, usize)> = (16368..16392).step_by(if thorough { 1 } else { 2 }).map(|t| (t, 0)).collect();
    ts.extend([(12000, 0), (16384, 20000), (32768, 0)]);
    for (t, pad) in ts {
        if let Ok(p) = crate::proj::construct_packet(&crate::compress::big_recipe(t, pad)) {
            if let Ok(m) = p.build_bytes_vec() {
                if let Some(e) = reparse_event(&format!("reparse big first-late-name-at={}", if t < 16384 { "<16384" } else { ">=16384" }), &m) {
                    st.case(&m, true);
                    accepted += 1;
                    out.emit(e);
                }
            }
        }
    }
    st.counters.insert("accepted_mutants".into(), accepted);
    // every header word: parse -> rebuild -> what the second parse would observe (HdrReparse rule)
    crate::hdr::emit_words(&mut out, &mut st, &[(0x4321, [1, 1, 0, 1])]);
    let _ = json!(null);
    out.finish(st.into_json("reparse",
        "for every accepted input: parse, re-serialise plain and compressed, parse both again. Inputs: reference encodings of all record types (Gen_RData), framing variants (Gen_Framing), EDNS messages (Gen_Edns), arbitrary-byte names and strings (Gen_Inspect), ALL admissible compression layouts of two small messages (Gen_Compress), +-1 perturbations and random mutations of those that the parser still accepts, and all 65536 header words; non-trivial = accepted by the parser",
        false));
}
