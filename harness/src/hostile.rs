//! C05 (framing) and C01 (hostile input): Parse / Peek events on inputs derived from the
//! specification's generators by truncation and perturbation, pointer graphs, count families,
//! random bytes.  A watchdog turns a hang into data.
use crate::msg::*;
use crate::packet::load_cases;
use crate::util::*;
use rand::rngs::StdRng;
use rand::{Rng, SeedableRng};
use serde_json::{json, Value};
use simple_dns::{header_buffer, PacketFlag};
use std::sync::mpsc::{channel, Receiver, Sender};
use std::time::Duration;

// ---------------------------------------------------------------- watchdog worker
struct Worker {
    tx: Sender<Vec<u8>>,
    rx: Receiver<(Value, u64, usize)>,
}

fn spawn_worker() -> Worker {
    let (tx, jrx) = channel::<Vec<u8>>();
    let (rtx, rx) = channel();
    std::thread::Builder::new()
        .stack_size(64 << 20)
        .spawn(move || {
            while let Ok(b) = jrx.recv() {
                let r = parse_out(&b);
                if rtx.send(r).is_err() {
                    break;
                }
            }
        })
        .unwrap();
    Worker { tx, rx }
}

pub struct Dog {
    w: Worker,
    pub hangs: u64,
}

impl Dog {
    pub fn new() -> Dog {
        Dog { w: spawn_worker(), hangs: 0 }
    }
    pub fn parse_event(&mut self, cls: &str, b: &[u8]) -> Value {
        self.w.tx.send(b.to_vec()).unwrap();
        let (out, steps, peak) = match self.w.rx.recv_timeout(Duration::from_secs(5)) {
            Ok(r) => r,
            Err(_) => {
                self.hangs += 1;
                self.w = spawn_worker(); // abandon the stuck thread
                (json!(["hang", "watchdog 5s"]), u32::MAX as u64, 0)
            }
        };
        json!({"ev": "Parse", "cls": cls, "b": bytes_json(b), "out": out, "steps": steps, "peak": peak})
    }
}

// ---------------------------------------------------------------- peek
fn res<T>(r: Result<simple_dns::Result<T>, String>, f: impl Fn(T) -> i64) -> Value {
    match r {
        Ok(Ok(v)) => json!(["ok", f(v)]),
        Ok(Err(_)) => json!(["err"]),
        Err(at) => json!(["panic", at]),
    }
}

pub fn peek_event(cls: &str, b: &[u8]) -> Value {
    let mut flags = json!(["ok", 0]);
    let mut mask = 0i64;
    for (f, bit) in crate::hdr::FLAGS.iter() {
        match guarded(|| header_buffer::has_flags(b, *f)) {
            Ok(Ok(true)) => mask |= *bit as i64,
            Ok(Ok(false)) => {}
            Ok(Err(_)) => flags = json!(["err"]),
            Err(at) => flags = json!(["panic", at]),
        }
    }
    if flags[0] == json!("ok") {
        flags = json!(["ok", mask]);
    }
    let _ = PacketFlag::RESPONSE;
    let r = json!([
        res(guarded(|| header_buffer::id(b)), |v| v as i64),
        res(guarded(|| header_buffer::questions(b)), |v| v as i64),
        res(guarded(|| header_buffer::answers(b)), |v| v as i64),
        res(guarded(|| header_buffer::name_servers(b)), |v| v as i64),
        res(guarded(|| header_buffer::additional_records(b)), |v| v as i64),
        flags,
        res(guarded(|| header_buffer::rcode(b)), crate::hdr::rcode_num),
        res(guarded(|| header_buffer::opcode(b)), crate::hdr::opcode_num),
    ]);
    json!({"ev": "Peek", "cls": cls, "b": bytes_json(b), "r": r})
}

// ---------------------------------------------------------------- C05
/// the offsets at which the parser started on an entry (hook records 20 / 21 at the top of
/// ResourceRecord::parse / Question::parse), whatever the outcome of the parse
pub fn entry_starts(b: &[u8]) -> Value {
    simple_dns::verif::arm_trace();
    let _ = guarded(|| simple_dns::Packet::parse(b).map(|_| ()));
    let steps = simple_dns::verif::take_trace();
    json!(steps.iter().filter(|s| s[0] == 20 || s[0] == 21).map(|s| s[1]).collect::<Vec<u64>>())
}

pub fn run_framing(a: &Args) {
    let mut out = Out::new(&a.out, a.shards);
    let mut st = Stats::default();
    let mut dog = Dog::new();
    for c in load_cases(a, 0) {
        let msg = json_bytes(&c["msg"]);
        let tn = crate::rdata::type_name(c["t"].as_u64().unwrap());
        let mode = c["mode"].as_str().unwrap();
        let delta = c["delta"].as_i64().unwrap();
        let cls = format!("framing {tn} {mode} delta={delta}");
        let mut e = dog.parse_event(&cls, &msg);
        e["starts"] = entry_starts(&msg);
        st.case(&msg, e["out"][0] == json!("ok"));
        st.bump(e["out"][0].as_str().unwrap());
        out.emit(e);
        if let Some(r) = reparse_event(&cls, &msg) {
            out.emit(r);
        }
        if mode == "exact" {
            // counts / lengths running past the end: every truncation of a valid three-record message
            for cut in 0..msg.len() {
                let mut e = dog.parse_event(&format!("framing {tn} truncated"), &msg[..cut]);
                e["starts"] = entry_starts(&msg[..cut]);
                st.case(&msg[..cut], false);
                out.emit(e);
            }
        }
    }
    // order of the entries: messages with several additional records around an OPT pseudo-record (Gen_Edns)
    for c in load_cases(a, 1) {
        let msg = json_bytes(&c["msg"]);
        let mut e = dog.parse_event(&format!("framing edns pos={}/{}", c["pos"], c["nar"]), &msg);
        e["starts"] = entry_starts(&msg);
        st.case(&msg, e["out"][0] == json!("ok"));
        out.emit(e);
    }
    out.finish(st.into_json("framing",
        "every message generated by TLC (Gen_Framing: each record type x RDLENGTH delta in {-2,-1,+1,+2,+7} x {length field only, data resized} followed by two sentinel records; counts +-1) parsed by the crate, plus every truncation of the exact variants; non-trivial = accepted by the crate",
        true));
}

// ---------------------------------------------------------------- C01
fn pointer_chain_message(k: usize, m: usize) -> Vec<u8> {
    // header: an = 1 (NULL record holding a k-long pointer chain), ns = m records whose owner is a
    // pointer to the end of the chain
    let mut b = vec![0, 1, 0x80, 0, 0, 0, 0, 1];
    b.extend((m as u16).to_be_bytes());
    b.extend([0, 0]);
    b.extend([1, b'a', 0]); // owner of the NULL record at offset 12: also the chain's target
    b.extend([0, 10, 0, 1, 0, 0, 0, 0]);
    b.extend(((2 * k) as u16).to_be_bytes());
    let mut last = 12usize;
    for _ in 0..k {
        let here = b.len();
        if last >= 0x4000 {
            break;
        }
        b.extend([0xC0 | (last >> 8) as u8, (last & 0xFF) as u8]);
        last = here;
    }
    for i in 0..m {
        if last < 0x4000 {
            b.extend([0xC0 | (last >> 8) as u8, (last & 0xFF) as u8]);
        } else {
            b.extend([0xC0, 12]);
        }
        b.extend([0, 1, 0, 1, 0, 0, 0, 0, 0, 4, 10, 0, (i >> 8) as u8, i as u8]);
    }
    b
}

pub fn run_hostile(a: &Args) {
    let mut out = Out::new(&a.out, a.shards);
    let mut st = Stats::default();
    let mut dog = Dog::new();
    let mut rng = StdRng::seed_from_u64(a.seed);
    let thorough = a.tier == "thorough";
    let mut emit = |out: &mut Out, st: &mut Stats, dog: &mut Dog, cls: &str, b: &[u8]| {
        let e = dog.parse_event(cls, b);
        st.case(b, e["out"][0] == json!("ok"));
        st.bump(e["out"][0].as_str().unwrap());
        out.emit(e);
    };
    // (i) valid encodings of each of the 40 types (Gen_RData) and framing variants (Gen_Framing):
    //     every truncation point, +-1 on every byte (covers every length-like field, count and pointer)
    let mut bases: Vec<(String, Vec<u8>)> = vec![];
    for c in load_cases(a, 0) {
        bases.push((format!("{}", crate::rdata::type_name(c["t"].as_u64().unwrap())), json_bytes(&c["msg"])));
    }
    for c in load_cases(a, 1) {
        if c["mode"] == json!("exact") || c["mode"] == json!("empty") {
            bases.push((format!("{} +sentinels", crate::rdata::type_name(c["t"].as_u64().unwrap())), json_bytes(&c["msg"])));
        }
    }
    // messages with an OPT pseudo-record before / between / after other additional records, and with two OPTs
    // (Gen_Edns): one base per layout
    if a.cases.len() > 2 {
        let mut seen = std::collections::HashSet::new();
        for c in load_cases(a, 2) {
            let msg = json_bytes(&c["msg"]);
            if seen.insert((c["pos"].to_string(), c["nar"].to_string(), msg.len())) {
                bases.push((format!("edns pos={}/{}", c["pos"], c["nar"]), msg));
            }
        }
    }
    for (i, (tn, msg)) in bases.iter().enumerate() {
        // quick: long opaque payloads are sampled, everything else exhaustive
        let dense = msg.len() <= 120 || thorough;
        if !thorough && msg.len() > 120 && i % 4 != 0 {
            continue;
        }
        // a base message on which the parser hangs costs 5 s (and a spinning thread) per variant: two hangs are
        // evidence enough, the rest of that base is skipped
        let hangs_before = dog.hangs;
        for cut in 0..msg.len() {
            if dog.hangs > hangs_before + 1 {
                break;
            }
            if dense || cut < 80 || cut % 16 == 0 || cut + 4 > msg.len() {
                emit(&mut out, &mut st, &mut dog, &format!("cut {tn}"), &msg[..cut]);
            }
        }
        // the unmodified base itself
        if dog.hangs <= hangs_before + 1 {
            emit(&mut out, &mut st, &mut dog, &format!("base {tn}"), msg);
        }
        for pos in 0..msg.len() {
            if dog.hangs > hangs_before + 1 {
                break;
            }
            if dense || pos < 80 || pos % 16 == 0 || pos + 4 > msg.len() {
                for d in [1u8, 255] {
                    let mut m = msg.clone();
                    m[pos] = m[pos].wrapping_add(d);
                    emit(&mut out, &mut st, &mut dog, &format!("perturb {tn}"), &m);
                }
                // boundary values of every byte and of every aligned-or-not 16-bit field (length fields at
                // and just below their maximum, where size arithmetic in a narrow type would wrap)
                for v in [0u8, 0x80, 0xff] {
                    if msg[pos] != v {
                        let mut m = msg.clone();
                        m[pos] = v;
                        emit(&mut out, &mut st, &mut dog, &format!("extreme8 {tn}"), &m);
                    }
                }
                if pos + 1 < msg.len() {
                    for v in [0xffffu16, 0xfffc, 0x8000] {
                        let mut m = msg.clone();
                        m[pos..pos + 2].copy_from_slice(&v.to_be_bytes());
                        emit(&mut out, &mut st, &mut dog, &format!("extreme16 {tn}"), &m);
                    }
                }
            }
        }
    }
    // (ii) header counts far beyond the body
    for counts in [[0xFFFFu16, 0, 0, 0], [0, 0xFFFF, 0, 0], [0, 0, 0xFFFF, 0], [0, 0, 0, 0xFFFF], [0xFFFF; 4], [1, 0xFFFF, 0xFFFF, 0xFFFF], [0x7FFF, 1, 1, 0x8000]] {
        for body in [0usize, 1, 4, 5, 16, 40] {
            let mut b = vec![0, 1, 0, 0];
            for c in counts {
                b.extend(c.to_be_bytes());
            }
            b.extend(std::iter::repeat(0).take(body));
            emit(&mut out, &mut st, &mut dog, "counts-beyond-body", &b);
        }
    }
    // many minimal entries: allocation legitimately proportional to the input
    for n in [100usize, 5000, 13000] {
        let mut b = vec![0, 1, 0, 0];
        b.extend((n as u16).to_be_bytes());
        b.extend([0, 0, 0, 0, 0, 0]);
        for _ in 0..n {
            b.extend([0, 0, 1, 0, 1]);
        }
        emit(&mut out, &mut st, &mut dog, "many-root-questions", &b);
    }
    // many minimal records of every type: as many records with RDLENGTH 0 as fit in 5.5 KB / 60 KB, and the last
    // record of every valid base message repeated to the same sizes -- whatever is allocated per record must not
    // grow with the size of the whole message (quadratic peak heap)
    {
        let mut codes: Vec<u16> = (1u16..=65).collect();
        codes.extend([99, 108, 109, 249, 250, 255, 256, 257, 9999, 65535]);
        let sizes: &[usize] = if thorough { &[500, 5400] } else { &[500] };
        for &n in sizes {
            for &t in &codes {
                let mut b = vec![0, 1, 0x80, 0, 0, 0];
                b.extend((n as u16).to_be_bytes());
                b.extend([0, 0, 0, 0]);
                for _ in 0..n {
                    b.push(0);
                    b.extend(t.to_be_bytes());
                    b.extend([0, 1, 0, 0, 0, 0, 0, 0]);
                }
                emit(&mut out, &mut st, &mut dog, "many-empty-records", &b);
            }
        }
        let mut seen = std::collections::HashSet::new();
        for (tn, msg) in bases.iter() {
            if msg.len() < 12 || msg.len() > 400 || !(thorough || seen.insert(tn.clone())) {
                continue;
            }
            // where the parser starts the entries of the base: the last entry runs to the end of the message
            let starts = entry_starts(msg);
            let last = match starts.as_array().and_then(|v| v.last()).and_then(|v| v.as_u64()) {
                Some(p) if (p as usize) >= 12 && (p as usize) < msg.len() => p as usize,
                _ => continue,
            };
            let count_at = (4..=10).rev().step_by(2).find(|&i| msg[i] != 0 || msg[i + 1] != 0);
            let count_at = match count_at {
                Some(i) if i > 4 => i,
                _ => continue, // the last entry is a question
            };
            let rec = msg[last..].to_vec();
            let target = if thorough { 30000 } else { 6000 };
            let k = (target / rec.len().max(1)).min(5000);
            let mut b = msg.clone();
            for _ in 0..k {
                b.extend(&rec);
            }
            let c = u16::from_be_bytes([msg[count_at], msg[count_at + 1]]) as usize + k;
            b[count_at..count_at + 2].copy_from_slice(&(c as u16).to_be_bytes());
            emit(&mut out, &mut st, &mut dog, &format!("repeated-record {tn}"), &b);
        }
    }
    // (iii) pointer chains referenced many times
    for (k, m) in [(10usize, 10usize), (100, 100), (1000, 200), (2200, 280), (4000, 1500), (8000, 3000)] {
        let b = pointer_chain_message(k, m);
        if b.len() <= 65535 {
            emit(&mut out, &mut st, &mut dog, "pointer-chain", &b);
        }
    }
    // a long run of labels hidden inside opaque RDATA, referenced by many 2-byte names: each reference
    // must stop at 255 bytes of name (run of 1-byte labels: legit at 127 labels, too long beyond)
    for (run, refs) in [(127usize, 50usize), (128, 50), (1000, 100), (30000, 100), (10000, 2000)] {
        let mut b = vec![0, 1, 0x80, 0, 0, 0, 0, 1];
        b.extend((refs as u16).to_be_bytes());
        b.extend([0, 0]);
        b.extend([0]); // owner: root, at offset 12
        b.extend([0, 10, 0, 1, 0, 0, 0, 0]);
        b.extend(((2 * run + 1) as u16).to_be_bytes());
        // RDATA at offset 23: run x [1, 'x'] then root
        for _ in 0..run {
            b.extend([1, b'x']);
        }
        b.push(0);
        for i in 0..refs {
            b.extend([0xC0, 23, 0, 16, 0, 1, 0, 0, 0, 0, 0, 2, 1, (i & 0xFF) as u8]);
        }
        if b.len() <= 65535 {
            emit(&mut out, &mut st, &mut dog, "label-run-in-rdata", &b);
        }
    }
    // a maximal name referenced by as many questions as fit
    {
        let mut b = vec![0, 1, 0, 0, 0, 0, 0, 0, 0, 0, 0, 0];
        let mut name = vec![];
        for _ in 0..127 {
            name.extend([1, b'x']);
        }
        name.push(0);
        let mut q = 0u16;
        b.extend(&name);
        b.extend([0, 1, 0, 1]);
        q += 1;
        while b.len() + 6 <= 65535 && q < 10000 {
            b.extend([0xC0, 12, 0, 1, 0, 1]);
            q += 1;
        }
        b[4..6].copy_from_slice(&q.to_be_bytes());
        emit(&mut out, &mut st, &mut dog, "max-name-many-references", &b);
    }
    // (iv) pointer graphs of every shape over <= 3 pointer slots in a question name
    let slots = 3usize;
    let targets: Vec<u16> = vec![0, 2, 11, 12, 13, 14, 15, 16, 17, 18, 19, 20, 0x3FFF];
    let mut idx = vec![0usize; slots];
    loop {
        let mut b = vec![0, 1, 0, 0, 0, 1, 0, 0, 0, 0, 0, 0];
        for s in 0..slots {
            let t = targets[idx[s]];
            b.extend([0xC0 | (t >> 8) as u8, (t & 0xFF) as u8]);
        }
        b.extend([0, 1, 0, 1]);
        emit(&mut out, &mut st, &mut dog, "pointer-graph", &b);
        let mut i = 0;
        loop {
            idx[i] += 1;
            if idx[i] < targets.len() {
                break;
            }
            idx[i] = 0;
            i += 1;
            if i == slots {
                break;
            }
        }
        if i == slots {
            break;
        }
    }
    // (v) random byte strings and random mutations of valid messages, up to 65535 bytes
    let nrand = if thorough { 60000 } else { 4000 };
    for i in 0..nrand {
        let len = match i % 10 {
            0 => rng.gen_range(0..13),
            1..=6 => rng.gen_range(12..200),
            7 | 8 => rng.gen_range(200..3000),
            _ => {
                if i % 100 == 9 {
                    rng.gen_range(9000..65536)
                } else {
                    rng.gen_range(3000..9001)
                }
            }
        };
        let mut b: Vec<u8> = (0..len).map(|_| rng.gen()).collect();
        if len >= 12 {
            b[2] &= !0x40u8 | 0xBF; // keep as is
            b[3] &= 0xBF; // clear Z so that the body is reached
            for c in 4..12 {
                if c % 2 == 0 {
                    b[c] = 0;
                } else {
                    b[c] = rng.gen_range(0..4);
                }
            }
        }
        emit(&mut out, &mut st, &mut dog, "random-bytes", &b);
    }
    if !bases.is_empty() {
        for _ in 0..nrand {
            let (tn, base) = &bases[rng.gen_range(0..bases.len())];
            let mut m = base.clone();
            for _ in 0..rng.gen_range(1..4) {
                match rng.gen_range(0..4) {
                    0 => {
                        let p = rng.gen_range(0..m.len());
                        m[p] ^= 1 << rng.gen_range(0..8);
                    }
                    1 => {
                        let p = rng.gen_range(0..m.len());
                        m[p] = [0u8, 0x3F, 0x40, 0x80, 0xC0, 0xFF][rng.gen_range(0..6)];
                    }
                    2 => {
                        let p = rng.gen_range(0..=m.len());
                        let ins: Vec<u8> = (0..rng.gen_range(1..4)).map(|_| rng.gen()).collect();
                        m.splice(p..p, ins);
                    }
                    _ => {
                        let p = rng.gen_range(0..m.len());
                        m.remove(p);
                    }
                }
                if m.is_empty() {
                    break;
                }
            }
            emit(&mut out, &mut st, &mut dog, &format!("random-mutation {tn}"), &m);
        }
    }
    // (vi) header peek functions on every short length and beyond
    let mut pk = 0u64;
    for len in 0..=14usize {
        for fill in [0x00u8, 0x80, 0xFF, 0x5A] {
            let b: Vec<u8> = (0..len).map(|i| if fill == 0x5A { (i as u8).wrapping_mul(37).wrapping_add(11) } else { fill }).collect();
            out.emit(peek_event(&format!("peek len={len}"), &b));
            pk += 1;
        }
    }
    st.counters.insert("peek_events".into(), pk);
    st.counters.insert("hangs".into(), dog.hangs);
    out.finish(st.into_json("hostile",
        "Packet::parse on: every truncation and +-1 perturbation of every byte of the reference encodings of all record types (Gen_RData) and of three-record messages (Gen_Framing); header counts beyond the body; pointer chains referenced many times; all pointer graphs over 3 slots x 13 targets; seeded random byte strings (0..65535 bytes) and random mutations; header peek functions on buffers of 0..14 bytes; non-trivial = input accepted by the parser",
        false));
}
