//! C12: every public observer applied to every part of a parsed packet; panics are data.
use crate::packet::load_cases;
use crate::util::*;
use serde_json::{json, Value};
use simple_dns::rdata::RData;
use simple_dns::{CharacterString, Name, Packet, ResourceRecord, CLASS, QCLASS, QTYPE, TYPE};
use std::collections::hash_map::DefaultHasher;
use std::convert::TryFrom;
use std::hash::{Hash, Hasher};

fn outcome<T>(r: Result<Result<T, ()>, String>) -> Value {
    match r {
        Ok(Ok(_)) => json!(["ok"]),
        Ok(Err(_)) => json!(["err"]),
        Err(at) => json!(["panic", at]),
    }
}

fn total<T>(f: impl FnOnce() -> T) -> Value {
    outcome(guarded(|| Ok::<T, ()>(f())))
}

fn hash_of<T: Hash>(t: &T) -> u64 {
    let mut h = DefaultHasher::new();
    t.hash(&mut h);
    h.finish()
}

fn obs_name(obs: &mut Vec<Value>, part: &str, n: &Name) {
    let raw: Vec<u8> = n.get_labels().iter().flat_map(|l| l.verif_bytes().to_vec()).collect();
    obs.push(json!(["name.display", part, bytes_json(&raw), total(|| format!("{}", n))]));
    obs.push(json!(["name.debug", part, [], total(|| format!("{:?}", n))]));
    obs.push(json!(["name.to_string", part, [], total(|| n.to_string())]));
    obs.push(json!(["name.hash", part, [], total(|| hash_of(n))]));
    obs.push(json!(["name.eq_clone", part, [], total(|| n.clone() == *n)]));
    obs.push(json!(["name.into_owned", part, [], total(|| n.clone().into_owned() == *n)]));
    obs.push(json!(["name.is_link_local", part, [], total(|| n.is_link_local())]));
    obs.push(json!(["name.is_subdomain_of", part, [], total(|| n.is_subdomain_of(n))]));
    obs.push(json!(["name.without", part, [], total(|| n.without(n).is_none() && n.without(&Name::new_unchecked("")).map(|x| x.to_string()).is_some())]));
    // the suffix relations against names made from the dotted SUFFIXES OF THE TEXT of this name (a label may
    // itself contain dots, so such a name can have more labels than this one while its text is a suffix), in both
    // directions, and against this name with a label put in front
    obs.push(json!(["name.relations-with-text-suffixes", part, [], total(|| {
        let text = n.to_string();
        let mut k = 0usize;
        for (i, ch) in text.char_indices() {
            if ch == '.' || i == 0 {
                let suffix = if i == 0 { &text[..] } else { &text[i + 1..] };
                let other = Name::new_unchecked(suffix);
                k += n.is_subdomain_of(&other) as usize + other.is_subdomain_of(n) as usize;
                k += n.without(&other).map(|x| x.get_labels().len()).unwrap_or(0);
                k += other.without(n).map(|x| x.get_labels().len()).unwrap_or(0);
            }
        }
        let longer = Name::new_unchecked(Box::leak(format!("zz.{text}").into_boxed_str()));
        k += longer.without(n).map(|x| x.get_labels().len()).unwrap_or(0) + n.without(&longer).map(|x| x.get_labels().len()).unwrap_or(0);
        k
    })]));
    obs.push(json!(["name.iter+get_labels", part, [], total(|| n.iter().count() == n.get_labels().len())]));
    obs.push(json!(["name.new_with_labels", part, [], total(|| Name::new_with_labels(n.get_labels()) == *n)]));
    for l in n.get_labels() {
        obs.push(json!(["label.display", part, bytes_json(l.verif_bytes()), total(|| format!("{}", l))]));
        obs.push(json!(["label.debug", part, [], total(|| format!("{:?}", l))]));
        obs.push(json!(["label.len+is_empty+as_bytes", part, [], total(|| l.len() == l.as_bytes().len() && !l.is_empty())]));
        obs.push(json!(["label.into_owned+hash", part, [], total(|| hash_of(&l.clone().into_owned()) == hash_of(l))]));
    }
}

fn obs_cstr(obs: &mut Vec<Value>, part: &str, c: &CharacterString) {
    let raw = c.verif_bytes().to_vec();
    obs.push(json!(["cstr.display", part, bytes_json(&raw), total(|| format!("{}", c))]));
    obs.push(json!(["cstr.debug", part, [], total(|| format!("{:?}", c))]));
    obs.push(json!(["cstr.hash", part, [], total(|| hash_of(c))]));
    obs.push(json!(["cstr.string_try_from", part, bytes_json(&raw), outcome(guarded(|| String::try_from(c.clone()).map_err(|_| ())))]));
}

fn obs_rdata(obs: &mut Vec<Value>, part: &str, r: &RData) {
    obs.push(json!(["rdata.debug", part, [], total(|| format!("{:?}", r))]));
    obs.push(json!(["rdata.hash", part, [], total(|| hash_of(r))]));
    obs.push(json!(["rdata.type_code", part, [], total(|| u16::from(r.type_code()))]));
    obs.push(json!(["rdata.clone_eq", part, [], total(|| r.clone() == *r)]));
    obs.push(json!(["rdata.into_owned", part, [], total(|| r.clone().into_owned() == *r)]));
    match r {
        RData::TXT(t) => {
            let raw: Vec<u8> = t.verif_strings().iter().flat_map(|s| s.to_vec()).collect();
            obs.push(json!(["txt.attributes", part, [], total(|| t.attributes())]));
            obs.push(json!(["txt.long_attributes", part, bytes_json(&raw), outcome(guarded(|| t.clone().long_attributes().map_err(|_| ())))]));
            obs.push(json!(["txt.string_try_from", part, bytes_json(&raw), outcome(guarded(|| String::try_from(t.clone()).map_err(|_| ())))]));
        }
        RData::HINFO(h) => {
            obs_cstr(obs, part, &h.cpu);
            obs_cstr(obs, part, &h.os);
        }
        RData::ISDN(i) => {
            obs_cstr(obs, part, &i.address);
            obs_cstr(obs, part, &i.sa);
        }
        RData::CAA(c) => obs_cstr(obs, part, &c.tag),
        RData::NAPTR(n) => {
            obs_cstr(obs, part, &n.flags);
            obs_cstr(obs, part, &n.services);
            obs_cstr(obs, part, &n.regexp);
            obs_name(obs, part, &n.replacement);
        }
        RData::MX(m) => obs_name(obs, part, &m.exchange),
        RData::SOA(s) => {
            obs_name(obs, part, &s.mname);
            obs_name(obs, part, &s.rname);
        }
        RData::SRV(s) => obs_name(obs, part, &s.target),
        RData::NSEC(n) => obs_name(obs, part, &n.next_name),
        RData::SVCB(v) => {
            obs.push(json!(["svcb.iter_params+get_param", part, [], total(|| v.iter_params().all(|(k, val)| v.get_param(k) == Some(val)))]));
            obs_name(obs, part, &v.target);
        }
        RData::NS(n) => obs_name(obs, part, &n.0),
        RData::CNAME(n) => obs_name(obs, part, &n.0),
        RData::PTR(n) => obs_name(obs, part, &n.0),
        _ => {}
    }
}

fn obs_rr(obs: &mut Vec<Value>, part: &str, rr: &ResourceRecord, p: &Packet) {
    obs.push(json!(["rr.debug", part, [], total(|| format!("{:?}", rr))]));
    obs.push(json!(["rr.hash", part, [], total(|| hash_of(rr))]));
    obs.push(json!(["rr.clone_eq", part, [], total(|| rr.clone() == *rr)]));
    obs.push(json!(["rr.into_owned", part, [], total(|| rr.clone().into_owned() == *rr)]));
    obs.push(json!(["rr.to_cache_flush_record", part, [], total(|| rr.to_cache_flush_record().cache_flush)]));
    for q in &p.questions {
        obs.push(json!(["rr.match_qtype", part, [], total(|| rr.match_qtype(q.qtype))]));
        obs.push(json!(["rr.match_qclass", part, [], total(|| rr.match_qclass(q.qclass))]));
    }
    // ... and against every special QTYPE / QCLASS and a few ordinary ones, whatever the packet itself asks
    for qt in [QTYPE::IXFR, QTYPE::AXFR, QTYPE::MAILB, QTYPE::MAILA, QTYPE::ANY, QTYPE::TYPE(TYPE::A), QTYPE::TYPE(TYPE::TXT), QTYPE::TYPE(TYPE::Unknown(65535)), QTYPE::TYPE(rr.rdata.type_code())] {
        obs.push(json!(["rr.match_qtype*", part, [], total(|| rr.match_qtype(qt))]));
    }
    for qc in [QCLASS::ANY, QCLASS::CLASS(CLASS::IN), QCLASS::CLASS(CLASS::CH), QCLASS::CLASS(CLASS::NONE)] {
        obs.push(json!(["rr.match_qclass*", part, [], total(|| rr.match_qclass(qc))]));
    }
    obs_name(obs, part, &rr.name);
    obs_rdata(obs, part, &rr.rdata);
}

fn observe(obs: &mut Vec<Value>, tag: &str, p: &Packet) {
    obs.push(json!(["packet.debug", format!("{tag}packet"), [], total(|| format!("{:?}", p))]));
    obs.push(json!(["packet.clone", format!("{tag}packet"), [], total(|| p.clone().id())]));
    obs.push(json!(["packet.accessors", format!("{tag}packet"), [], total(|| (p.id(), p.rcode() == p.rcode(), p.opcode() == p.opcode(), p.opt().map(|o| o.opt_codes.len()), p.has_flags(simple_dns::PacketFlag::RESPONSE)))]));
    obs.push(json!(["packet.into_reply", format!("{tag}packet"), [], total(|| p.clone().into_reply().id() == p.id())]));
    obs.push(json!(["packet.into_owned_parts", format!("{tag}packet"), [], total(|| {
        let q: Vec<_> = p.questions.iter().cloned().map(|q| q.into_owned()).collect();
        let a: Vec<_> = p.answers.iter().cloned().map(|r| r.into_owned()).collect();
        (q.len(), a.len())
    })]));
    obs.push(json!(["packet.build", format!("{tag}packet"), [], total(|| p.build_bytes_vec().is_ok())]));
    obs.push(json!(["packet.build_compressed", format!("{tag}packet"), [], total(|| p.build_bytes_vec_compressed().is_ok())]));
    for (i, q) in p.questions.iter().enumerate() {
        let part = format!("{tag}qd[{i}]");
        obs.push(json!(["question.debug", part, [], total(|| format!("{:?}", q))]));
        obs.push(json!(["question.into_owned", part, [], total(|| q.clone().into_owned().unicast_response)]));
        obs_name(obs, &part, &q.qname);
    }
    for (sec, rrs) in [("an", &p.answers), ("ns", &p.name_servers), ("ar", &p.additional_records)] {
        for (i, rr) in rrs.iter().enumerate() {
            obs_rr(obs, &format!("{tag}{sec}[{i}]"), rr, p);
        }
    }
}

pub fn inspect_event(cls: &str, b: &[u8]) -> Option<Value> {
    let p = match guarded(|| Packet::parse(b)) {
        Ok(Ok(p)) => p,
        _ => return None,
    };
    let mut obs: Vec<Value> = vec![];
    observe(&mut obs, "", &p);
    // the same observers on the packet rebuilt from owned parts (into_owned of every question and record): what
    // was borrowed from the receive buffer is now owned data, and every observer must treat it alike
    let owned = guarded(|| {
        let mut o: Packet<'static> = Packet::new_query(p.id());
        o.questions = p.questions.iter().cloned().map(|q| q.into_owned()).collect();
        o.answers = p.answers.iter().cloned().map(|r| r.into_owned()).collect();
        o.name_servers = p.name_servers.iter().cloned().map(|r| r.into_owned()).collect();
        o.additional_records = p.additional_records.iter().cloned().map(|r| r.into_owned()).collect();
        o
    });
    if let Ok(o) = owned {
        observe(&mut obs, "owned ", &o);
    }
    Some(json!({"ev": "Inspect", "cls": cls, "b": bytes_json(b), "obs": obs}))
}

pub fn run(a: &Args) {
    let mut out = Out::new(&a.out, a.shards);
    let mut st = Stats::default();
    for c in load_cases(a, 0) {
        let msg = json_bytes(&c["msg"]);
        let s = json_bytes(&c["s"]);
        let cls = format!("inspect utf8={} len={}", c["utf8"], s.len().min(4));
        match inspect_event(&cls, &msg) {
            Some(e) => {
                st.case(&msg, true);
                st.counters.entry("observations".into()).and_modify(|x| *x += e["obs"].as_array().unwrap().len() as u64).or_insert(0);
                out.emit(e);
            }
            None => {
                // the reference-encoded message was not accepted: C10/C02 territory; record it
                st.case(&msg, false);
                st.bump("not-accepted");
            }
        }
    }
    // accepted messages of the other generators, inspected as well
    for idx in 1..a.cases.len() {
        for c in load_cases(a, idx) {
            let msg = json_bytes(&c["msg"]);
            if let Some(e) = inspect_event("inspect other-generator", &msg) {
                st.case(&msg, true);
                out.emit(e);
            }
        }
    }
    out.finish(st.into_json("inspect",
        "every message generated by TLC (Gen_Inspect: all byte strings up to length 3 over {NUL,'a','.','\\\\','=',0x80,0xC3,0xA9,0xFF} plus maximal strings, placed in owner labels, RDATA name labels, character-strings and TXT strings of TXT/HINFO/MX/NAPTR/CAA/ISDN/SOA/SRV/NSEC records) parsed by the crate and every public observer applied to every part (Debug, Display, to_string, clone, into_owned, Hash, PartialEq, match_q*, TXT::attributes/long_attributes, String::try_from); plus the accepted messages of Gen_RData/Gen_Edns; non-trivial = message accepted",
        true));
}
