//! The projection shared by every check: real values <-> abstract JSON values (DESIGN.md Appendix A).
//! `project_*` reads through the public API (plus the read-only byte accessors of the hooks);
//! `construct_*` builds through the public constructors only.  Integers wider than 16 bits travel
//! as big-endian byte arrays produced here with `to_be_bytes`, so byte order is observable.
use crate::hdr::{flag_mask_of, flags_from_mask, opcode_from, opcode_num, rcode_from, rcode_num};
use crate::util::*;
use serde_json::{json, Value};
use simple_dns::rdata::*;
use simple_dns::{CharacterString, Label, Name, Packet, Question, ResourceRecord, CLASS, QCLASS, QTYPE, TYPE};
use std::convert::TryFrom;
use std::net::{Ipv4Addr, Ipv6Addr};

pub fn name_json(n: &Name) -> Value {
    Value::Array(n.get_labels().iter().map(|l| bytes_json(l.verif_bytes())).collect())
}

fn cs_json(c: &CharacterString) -> Value {
    bytes_json(c.verif_bytes())
}

fn b1(x: u8) -> Value {
    json!([x])
}
fn b2(x: u16) -> Value {
    bytes_json(&x.to_be_bytes())
}
fn b4(x: u32) -> Value {
    bytes_json(&x.to_be_bytes())
}
fn i4(x: i32) -> Value {
    bytes_json(&x.to_be_bytes())
}

/// IANA type code of each typed variant
pub fn variant_code(r: &RData) -> Option<u16> {
    Some(match r {
        RData::A(_) => 1, RData::NS(_) => 2, RData::MD(_) => 3, RData::MF(_) => 4, RData::CNAME(_) => 5, RData::SOA(_) => 6,
        RData::MB(_) => 7, RData::MG(_) => 8, RData::MR(_) => 9, RData::WKS(_) => 11, RData::PTR(_) => 12, RData::HINFO(_) => 13,
        RData::MINFO(_) => 14, RData::MX(_) => 15, RData::TXT(_) => 16, RData::RP(_) => 17, RData::AFSDB(_) => 18, RData::ISDN(_) => 20,
        RData::RouteThrough(_) => 21, RData::NSAP(_) => 22, RData::NSAP_PTR(_) => 23, RData::AAAA(_) => 28, RData::LOC(_) => 29,
        RData::SRV(_) => 33, RData::NAPTR(_) => 35, RData::KX(_) => 36, RData::CERT(_) => 37, RData::OPT(_) => 41, RData::DS(_) => 43,
        RData::IPSECKEY(_) => 45, RData::RRSIG(_) => 46, RData::NSEC(_) => 47, RData::DNSKEY(_) => 48, RData::DHCID(_) => 49,
        RData::ZONEMD(_) => 63, RData::SVCB(_) => 64, RData::HTTPS(_) => 65, RData::EUI48(_) => 108, RData::EUI64(_) => 109,
        RData::CAA(_) => 257,
        _ => return None, // NULL(code, ..) and Empty(type) carry their code
    })
}

/// (type code, field values in wire order) -- `None` fields for RData::Empty
pub fn project_rdata(r: &RData) -> (u16, Value) {
    // the type shown is the IANA code of the VARIANT the crate chose (written down here), not what the crate's own
    // type_code() says about it: a type table with two entries swapped is self-consistent otherwise
    let code: u16 = variant_code(r).unwrap_or_else(|| r.type_code().into());
    let f = match r {
        RData::A(a) => json!([b4(a.address)]),
        RData::AAAA(a) => json!([bytes_json(&a.address.to_be_bytes())]),
        RData::NS(n) => json!([name_json(&n.0)]),
        RData::MD(n) => json!([name_json(&n.0)]),
        RData::MF(n) => json!([name_json(&n.0)]),
        RData::CNAME(n) => json!([name_json(&n.0)]),
        RData::MB(n) => json!([name_json(&n.0)]),
        RData::MG(n) => json!([name_json(&n.0)]),
        RData::MR(n) => json!([name_json(&n.0)]),
        RData::PTR(n) => json!([name_json(&n.0)]),
        RData::NSAP_PTR(n) => json!([name_json(&n.0)]),
        RData::SOA(s) => json!([name_json(&s.mname), name_json(&s.rname), b4(s.serial), i4(s.refresh), i4(s.retry), i4(s.expire), b4(s.minimum)]),
        RData::WKS(w) => json!([b4(w.address), b1(w.protocol), bytes_json(&w.bit_map)]),
        RData::HINFO(h) => json!([cs_json(&h.cpu), cs_json(&h.os)]),
        RData::MINFO(m) => json!([name_json(&m.rmailbox), name_json(&m.emailbox)]),
        RData::MX(m) => json!([b2(m.preference), name_json(&m.exchange)]),
        RData::TXT(t) => json!([Value::Array(t.verif_strings().iter().map(|s| bytes_json(s)).collect())]),
        RData::RP(r) => json!([name_json(&r.mbox), name_json(&r.txt)]),
        RData::AFSDB(a) => json!([b2(a.subtype), name_json(&a.hostname)]),
        RData::ISDN(i) => json!([cs_json(&i.address), cs_json(&i.sa)]),
        RData::RouteThrough(r) => json!([b2(r.preference), name_json(&r.intermediate_host)]),
        RData::NSAP(n) => json!([b1(n.afi), b2(n.idi), b1(n.dfi), bytes_json(&n.aa.to_be_bytes()[1..4]), b2(n.rsvd), b2(n.rd), b2(n.area),
            bytes_json(&n.id.to_be_bytes()[2..8]), b1(n.sel)]),
        RData::LOC(l) => json!([b1(l.version), b1(l.size), b1(l.horizontal_precision), b1(l.vertical_precision), i4(l.latitude), i4(l.longitude), i4(l.altitude)]),
        RData::SRV(s) => json!([b2(s.priority), b2(s.weight), b2(s.port), name_json(&s.target)]),
        RData::NAPTR(n) => json!([b2(n.order), b2(n.preference), cs_json(&n.flags), cs_json(&n.services), cs_json(&n.regexp), name_json(&n.replacement)]),
        RData::KX(k) => json!([b2(k.preference), name_json(&k.exchanger)]),
        RData::CERT(c) => json!([b2(c.type_code), b2(c.key_tag), b1(c.algorithm), bytes_json(&c.certificate)]),
        RData::OPT(o) => json!([opt_codes_json(o)]),
        RData::DS(d) => json!([b2(d.key_tag), b1(d.algorithm), b1(d.digest_type), bytes_json(&d.digest)]),
        RData::IPSECKEY(k) => {
            let (gt, gv) = match &k.gateway {
                Gateway::None => (0u8, json!([])),
                Gateway::IPv4(a) => (1, bytes_json(&a.octets())),
                Gateway::IPv6(a) => (2, bytes_json(&a.octets())),
                Gateway::Domain(n) => (3, name_json(n)),
            };
            json!([b1(k.precedence), b1(gt), b1(k.algorithm), gv, bytes_json(&k.public_key)])
        }
        RData::RRSIG(r) => json!([b2(r.type_covered), b1(r.algorithm), b1(r.labels), b4(r.original_ttl), b4(r.signature_expiration), b4(r.signature_inception),
            b2(r.key_tag), name_json(&r.signer_name), bytes_json(&r.signature)]),
        RData::NSEC(n) => json!([name_json(&n.next_name), Value::Array(n.type_bit_maps.iter().map(|m| json!([m.window_block, bytes_json(&m.bitmap)])).collect())]),
        RData::DNSKEY(d) => json!([b2(d.flags), b1(d.protocol), b1(d.algorithm), bytes_json(&d.public_key)]),
        RData::DHCID(d) => json!([b2(d.identifier), b1(d.digest_type), bytes_json(&d.digest)]),
        RData::ZONEMD(z) => json!([b4(z.serial), b1(z.scheme), b1(z.algorithm), bytes_json(&z.digest)]),
        RData::SVCB(s) => svcb_json(s),
        RData::HTTPS(h) => svcb_json(&h.0),
        RData::EUI48(e) => json!([bytes_json(&e.address)]),
        RData::EUI64(e) => json!([bytes_json(&e.address)]),
        RData::CAA(c) => json!([b1(c.flag), cs_json(&c.tag), bytes_json(&c.value)]),
        RData::NULL(_, n) => json!([bytes_json(n.get_data())]),
        RData::Empty(_) => json!([]),
    };
    (code, f)
}

fn svcb_json(s: &SVCB) -> Value {
    json!([b2(s.priority), name_json(&s.target), Value::Array(s.iter_params().map(|(k, v)| json!([k, bytes_json(v)])).collect())])
}

fn opt_codes_json(o: &OPT) -> Value {
    Value::Array(o.opt_codes.iter().map(|c| json!([c.code, bytes_json(&c.data)])).collect())
}

pub fn project_rr(rr: &ResourceRecord) -> Value {
    let (code, f) = project_rdata(&rr.rdata);
    if let RData::OPT(o) = &rr.rdata {
        // an OPT pseudo-record left inside a section: CLASS carries the UDP size, no cache-flush bit
        return json!({"name": name_json(&rr.name), "type": code, "class": o.udp_packet_size, "cf": false,
            "ttl": b4(rr.ttl), "rd": f});
    }
    json!({"name": name_json(&rr.name), "type": code, "class": rr.class as u16, "cf": rr.cache_flush, "ttl": b4(rr.ttl), "rd": f})
}

pub fn project_question(q: &Question) -> Value {
    json!({"name": name_json(&q.qname), "qtype": u16::from(q.qtype), "qclass": u16::from(q.qclass), "unicast": q.unicast_response})
}

pub fn project_packet(p: &Packet) -> Value {
    let opt = match p.opt() {
        Some(o) => json!([{"udp": o.udp_packet_size, "version": o.version, "options": opt_codes_json(o)}]),
        None => json!([]),
    };
    json!({
        "id": p.id(), "fs": flag_mask_of(p), "opcode": opcode_num(p.opcode()), "rcode": rcode_num(p.rcode()), "opt": opt,
        "qd": Value::Array(p.questions.iter().map(project_question).collect()),
        "an": Value::Array(p.answers.iter().map(project_rr).collect()),
        "ns": Value::Array(p.name_servers.iter().map(project_rr).collect()),
        "ar": Value::Array(p.additional_records.iter().map(project_rr).collect()),
    })
}

// ------------------------------------------------------------------------------------------ construct
pub fn name_from(v: &Value) -> Name<'static> {
    let labels: Vec<Label<'static>> = v.as_array().unwrap().iter().map(|l| Label::new_unchecked(json_bytes(l))).collect();
    // (no into_owned here: constructing test values must not go through the conversions under test)
    Name::new_with_labels(&labels)
}

fn cs_from(v: &Value) -> Result<CharacterString<'static>, String> {
    // borrowed from leaked storage: a value "built from parts" that still borrows, like application data would
    let b: &'static [u8] = Box::leak(json_bytes(v).into_boxed_slice());
    CharacterString::new(b).map_err(|e| format!("cstr: {e}"))
}

fn u8_of(v: &Value) -> u8 {
    json_bytes(v)[0]
}
fn u16_of(v: &Value) -> u16 {
    let b = json_bytes(v);
    u16::from_be_bytes([b[0], b[1]])
}
fn u32_of(v: &Value) -> u32 {
    let b = json_bytes(v);
    u32::from_be_bytes([b[0], b[1], b[2], b[3]])
}
fn i32_of(v: &Value) -> i32 {
    u32_of(v) as i32
}

fn svcb_from(f: &Value) -> Result<SVCB<'static>, String> {
    let mut s = SVCB::new(u16_of(&f[0]), name_from(&f[1]));
    for p in f[2].as_array().unwrap() {
        s.set_param(p[0].as_u64().unwrap() as u16, json_bytes(&p[1])).map_err(|e| format!("svcb param: {e}"))?;
    }
    Ok(s)
}

/// build an RData value of type `code` from its field values through the public API
pub fn construct_rdata(code: u16, f: &Value) -> Result<RData<'static>, String> {
    if f.as_array().map(|a| a.is_empty()).unwrap_or(true) {
        return Ok(RData::Empty(TYPE::from(code)));
    }
    let r = match code {
        1 => RData::A(A { address: u32_of(&f[0]) }),
        28 => {
            let b = json_bytes(&f[0]);
            let mut a = [0u8; 16];
            a.copy_from_slice(&b);
            RData::AAAA(AAAA { address: u128::from_be_bytes(a) })
        }
        2 => RData::NS(NS(name_from(&f[0]))),
        3 => RData::MD(MD(name_from(&f[0]))),
        4 => RData::MF(MF(name_from(&f[0]))),
        5 => RData::CNAME(CNAME(name_from(&f[0]))),
        7 => RData::MB(MB(name_from(&f[0]))),
        8 => RData::MG(MG(name_from(&f[0]))),
        9 => RData::MR(MR(name_from(&f[0]))),
        12 => RData::PTR(PTR(name_from(&f[0]))),
        23 => RData::NSAP_PTR(NSAP_PTR(name_from(&f[0]))),
        6 => RData::SOA(SOA { mname: name_from(&f[0]), rname: name_from(&f[1]), serial: u32_of(&f[2]), refresh: i32_of(&f[3]),
            retry: i32_of(&f[4]), expire: i32_of(&f[5]), minimum: u32_of(&f[6]) }),
        11 => RData::WKS(WKS { address: u32_of(&f[0]), protocol: u8_of(&f[1]), bit_map: json_bytes(&f[2]).into() }),
        13 => RData::HINFO(HINFO { cpu: cs_from(&f[0])?, os: cs_from(&f[1])? }),
        14 => RData::MINFO(MINFO { rmailbox: name_from(&f[0]), emailbox: name_from(&f[1]) }),
        15 => RData::MX(MX { preference: u16_of(&f[0]), exchange: name_from(&f[1]) }),
        16 => {
            let mut t = TXT::new();
            for s in f[0].as_array().unwrap() {
                t.add_char_string(cs_from(s)?);
            }
            RData::TXT(t)
        }
        17 => RData::RP(RP { mbox: name_from(&f[0]), txt: name_from(&f[1]) }),
        18 => RData::AFSDB(AFSDB { subtype: u16_of(&f[0]), hostname: name_from(&f[1]) }),
        20 => RData::ISDN(ISDN { address: cs_from(&f[0])?, sa: cs_from(&f[1])? }),
        21 => RData::RouteThrough(RouteThrough { preference: u16_of(&f[0]), intermediate_host: name_from(&f[1]) }),
        22 => {
            let aa = json_bytes(&f[3]);
            let id = json_bytes(&f[7]);
            RData::NSAP(NSAP { afi: u8_of(&f[0]), idi: u16_of(&f[1]), dfi: u8_of(&f[2]), aa: u32::from_be_bytes([0, aa[0], aa[1], aa[2]]),
                rsvd: u16_of(&f[4]), rd: u16_of(&f[5]), area: u16_of(&f[6]),
                id: u64::from_be_bytes([0, 0, id[0], id[1], id[2], id[3], id[4], id[5]]), sel: u8_of(&f[8]) })
        }
        29 => RData::LOC(LOC { version: u8_of(&f[0]), size: u8_of(&f[1]), horizontal_precision: u8_of(&f[2]), vertical_precision: u8_of(&f[3]),
            latitude: i32_of(&f[4]), longitude: i32_of(&f[5]), altitude: i32_of(&f[6]) }),
        33 => RData::SRV(SRV { priority: u16_of(&f[0]), weight: u16_of(&f[1]), port: u16_of(&f[2]), target: name_from(&f[3]) }),
        35 => RData::NAPTR(NAPTR { order: u16_of(&f[0]), preference: u16_of(&f[1]), flags: cs_from(&f[2])?, services: cs_from(&f[3])?,
            regexp: cs_from(&f[4])?, replacement: name_from(&f[5]) }),
        36 => RData::KX(KX { preference: u16_of(&f[0]), exchanger: name_from(&f[1]) }),
        37 => RData::CERT(CERT { type_code: u16_of(&f[0]), key_tag: u16_of(&f[1]), algorithm: u8_of(&f[2]), certificate: json_bytes(&f[3]).into() }),
        41 => RData::OPT(OPT { opt_codes: opt_codes_from(&f[0]), udp_packet_size: 0, version: 0 }),
        43 => RData::DS(DS { key_tag: u16_of(&f[0]), algorithm: u8_of(&f[1]), digest_type: u8_of(&f[2]), digest: json_bytes(&f[3]).into() }),
        45 => {
            let gw = match u8_of(&f[1]) {
                0 => Gateway::None,
                1 => {
                    let b = json_bytes(&f[3]);
                    Gateway::IPv4(Ipv4Addr::new(b[0], b[1], b[2], b[3]))
                }
                2 => {
                    let b = json_bytes(&f[3]);
                    let mut a = [0u8; 16];
                    a.copy_from_slice(&b);
                    Gateway::IPv6(Ipv6Addr::from(a))
                }
                3 => Gateway::Domain(name_from(&f[3])),
                x => return Err(format!("gateway type {x} not constructible")),
            };
            RData::IPSECKEY(IPSECKEY { precedence: u8_of(&f[0]), algorithm: u8_of(&f[2]), gateway: gw, public_key: json_bytes(&f[4]).into() })
        }
        46 => RData::RRSIG(RRSIG { type_covered: u16_of(&f[0]), algorithm: u8_of(&f[1]), labels: u8_of(&f[2]), original_ttl: u32_of(&f[3]),
            signature_expiration: u32_of(&f[4]), signature_inception: u32_of(&f[5]), key_tag: u16_of(&f[6]), signer_name: name_from(&f[7]),
            signature: json_bytes(&f[8]).into() }),
        47 => RData::NSEC(NSEC { next_name: name_from(&f[0]), type_bit_maps: f[1].as_array().unwrap().iter()
            .map(|w| TypeBitMap { window_block: w[0].as_u64().unwrap() as u8, bitmap: json_bytes(&w[1]).into() }).collect() }),
        48 => RData::DNSKEY(DNSKEY { flags: u16_of(&f[0]), protocol: u8_of(&f[1]), algorithm: u8_of(&f[2]), public_key: json_bytes(&f[3]).into() }),
        49 => RData::DHCID(DHCID { identifier: u16_of(&f[0]), digest_type: u8_of(&f[1]), digest: json_bytes(&f[2]).into() }),
        63 => RData::ZONEMD(ZONEMD { serial: u32_of(&f[0]), scheme: u8_of(&f[1]), algorithm: u8_of(&f[2]), digest: json_bytes(&f[3]).into() }),
        64 => RData::SVCB(svcb_from(f)?),
        65 => RData::HTTPS(HTTPS(svcb_from(f)?)),
        108 => {
            let b = json_bytes(&f[0]);
            let mut a = [0u8; 6];
            a.copy_from_slice(&b);
            RData::EUI48(EUI48 { address: a })
        }
        109 => {
            let b = json_bytes(&f[0]);
            let mut a = [0u8; 8];
            a.copy_from_slice(&b);
            RData::EUI64(EUI64 { address: a })
        }
        257 => RData::CAA(CAA { flag: u8_of(&f[0]), tag: cs_from(&f[1])?, value: json_bytes(&f[2]).into() }),
        c => {
            let data: &'static [u8] = Box::leak(json_bytes(&f[0]).into_boxed_slice());
            RData::NULL(c, NULL::new(data).map_err(|e| format!("null: {e}"))?)
        }
    };
    Ok(r)
}

fn opt_codes_from(v: &Value) -> Vec<OPTCode<'static>> {
    v.as_array().unwrap().iter().map(|c| OPTCode { code: c[0].as_u64().unwrap() as u16, data: json_bytes(&c[1]).into() }).collect()
}

/// the enum values are written down here, not obtained from the crate's own code conversions (which are under
/// test themselves: a conversion that refuses a supported code must show in the packets, not stop the harness)
fn class_of(c: u16) -> Result<CLASS, String> {
    Ok(match c {
        1 => CLASS::IN,
        2 => CLASS::CS,
        3 => CLASS::CH,
        4 => CLASS::HS,
        254 => CLASS::NONE,
        x => return Err(format!("class {x} outside the specification's domain")),
    })
}

pub fn construct_rr(v: &Value) -> Result<ResourceRecord<'static>, String> {
    let code = v["type"].as_u64().unwrap() as u16;
    let class = class_of(v["class"].as_u64().unwrap() as u16)?;
    let ttl = u32_of(&v["ttl"]);
    let rdata = construct_rdata(code, &v["rd"])?;
    Ok(ResourceRecord::new(name_from(&v["name"]), class, ttl, rdata).with_cache_flush(v["cf"].as_bool().unwrap()))
}

pub fn construct_question(v: &Value) -> Result<Question<'static>, String> {
    let qt = match v["qtype"].as_u64().unwrap() as u16 {
        251 => QTYPE::IXFR,
        252 => QTYPE::AXFR,
        253 => QTYPE::MAILB,
        254 => QTYPE::MAILA,
        255 => QTYPE::ANY,
        c => QTYPE::TYPE(TYPE::from(c)),
    };
    let qc = match v["qclass"].as_u64().unwrap() as u16 {
        255 => QCLASS::ANY,
        c => QCLASS::CLASS(class_of(c)?),
    };
    Ok(Question::new(name_from(&v["name"]), qt, qc, v["unicast"].as_bool().unwrap()))
}

pub fn construct_packet(v: &Value) -> Result<Packet<'static>, String> {
    let fs = v["fs"].as_u64().unwrap() as u16;
    let id = v["id"].as_u64().unwrap() as u16;
    // use both constructors: replies through new_reply, queries through new_query
    let mut p = if fs & 0x8000 != 0 { Packet::new_reply(id) } else { Packet::new_query(id) };
    p.set_flags(flags_from_mask(fs));
    *p.opcode_mut() = opcode_from(v["opcode"].as_i64().unwrap());
    *p.rcode_mut() = rcode_from(v["rcode"].as_i64().unwrap());
    if let Some(o) = v["opt"].as_array().and_then(|a| a.first()) {
        *p.opt_mut() = Some(OPT { opt_codes: opt_codes_from(&o["options"]), udp_packet_size: o["udp"].as_u64().unwrap() as u16,
            version: o["version"].as_u64().unwrap() as u8 });
    }
    for q in v["qd"].as_array().unwrap() {
        p.questions.push(construct_question(q)?);
    }
    for r in v["an"].as_array().unwrap() {
        p.answers.push(construct_rr(r)?);
    }
    for r in v["ns"].as_array().unwrap() {
        p.name_servers.push(construct_rr(r)?);
    }
    for r in v["ar"].as_array().unwrap() {
        p.additional_records.push(construct_rr(r)?);
    }
    Ok(p)
}
