//! C15 (discovery pipeline) and C14 (datagram handling pipeline) on the pure functions the socket
//! loops are made of, composed in the order the loops use them, under a real RwLock.
use crate::packet::load_cases;
use crate::proj::*;
use crate::util::*;
use rand::rngs::StdRng;
use rand::{Rng, SeedableRng};
use serde_json::{json, Value};
use simple_dns::rdata::{RData, A, PTR};
use simple_dns::{header_buffer, Name, Packet, PacketFlag, ResourceRecord, CLASS};
use simple_mdns::verif::{add_response_to_resources, build_reply, from_records, DomainResourceFilter, ResourceRecordManager};
use simple_mdns::InstanceInformation;
use std::net::{IpAddr, Ipv4Addr, Ipv6Addr};
use std::sync::{Arc, RwLock};

fn text(v: &Value) -> String {
    v.as_array().unwrap().iter().map(|c| char::from_u32(c.as_u64().unwrap() as u32).unwrap()).collect()
}
fn cps(s: &str) -> Vec<u32> {
    s.chars().map(|c| c as u32).collect()
}
fn ip_from(v: &Value) -> IpAddr {
    let b = json_bytes(v);
    if b[0] == 4 {
        IpAddr::V4(Ipv4Addr::new(b[1], b[2], b[3], b[4]))
    } else {
        {
            let mut o = [0u8; 16];
            o.copy_from_slice(&b[1..17]);
            IpAddr::V6(Ipv6Addr::from(o))
        }
    }
}
fn ip_json(ip: &IpAddr) -> Value {
    match ip {
        IpAddr::V4(a) => {
            let mut v = vec![4u8];
            v.extend(a.octets());
            bytes_json(&v)
        }
        IpAddr::V6(a) => {
            let mut v = vec![6u8];
            v.extend(a.octets());
            bytes_json(&v)
        }
    }
}
fn name_text(v: &Value) -> String {
    v.as_array().unwrap().iter().map(|l| String::from_utf8(json_bytes(l)).unwrap()).collect::<Vec<_>>().join(".")
}

pub fn instance_of(v: &Value) -> InstanceInformation {
    let mut i = InstanceInformation::new(text(&v["name"]));
    for ip in v["ips"].as_array().unwrap() {
        i = i.with_ip_address(ip_from(ip));
    }
    for p in v["ports"].as_array().unwrap() {
        i = i.with_port(p.as_u64().unwrap() as u16);
    }
    for a in v["attrs"].as_array().unwrap() {
        let val = if a[1][0] == json!("none") { None } else { Some(text(&a[1][1])) };
        i = i.with_attribute(text(&a[0]), val);
    }
    i
}

pub fn instance_json(i: &InstanceInformation) -> Value {
    let mut ips: Vec<&IpAddr> = i.ip_addresses.iter().collect();
    ips.sort();
    let mut ports: Vec<&u16> = i.ports.iter().collect();
    ports.sort();
    let mut attrs: Vec<(&String, &Option<String>)> = i.attributes.iter().collect();
    attrs.sort();
    json!({"name": cps(&i.unescaped_instance_name()), "ips": ips.iter().map(|x| ip_json(x)).collect::<Vec<_>>(), "ports": ports,
        "attrs": attrs.iter().map(|(k, v)| json!([cps(k), match v { None => json!(["none"]), Some(s) => json!(["some", cps(s)]) }])).collect::<Vec<_>>()})
}

/// the records a peer announces for one instance, as the crate's own `announce` assembles them
fn announcement_packet(service: &str, inst: &Value, ttl: u32) -> Result<Vec<u8>, String> {
    let info = instance_of(inst);
    let full = format!("{}.{}", info.escaped_instance_name(), service);
    // (a peer running another implementation may use any UTF-8 text as its instance label; where this library's
    // own validation refuses the text, the name is assembled from labels, as such a peer's packet would carry it)
    let full_name = match Name::new(&full) {
        Ok(n) => n.into_owned(),
        Err(_) => {
            let mut labels = vec![simple_dns::Label::new_unchecked(text(&inst["name"]).into_bytes())];
            let svc: Name<'static> = Name::new(service).map_err(|e| e.to_string())?.into_owned();
            for l in svc.get_labels() {
                labels.push(simple_dns::Label::new_unchecked(l.as_bytes().to_vec()));
            }
            Name::new_with_labels(&labels).into_owned()
        }
    };
    let records = info.into_records(&full_name, ttl).map_err(|e| e.to_string())?;
    let mut p = Packet::new_reply(1);
    for r in &records {
        if matches!(r.rdata, RData::SRV(_)) {
            for a in records.iter().filter(|x| matches!(x.rdata, RData::A(_) | RData::AAAA(_))) {
                if !p.additional_records.contains(a) {
                    p.additional_records.push(a.clone());
                }
            }
        }
        p.answers.push(r.clone());
    }
    p.build_bytes_vec_compressed().map_err(|e| e.to_string())
}


/// the bytes a peer puts on the wire for one announcement of a generated history
fn announcement_bytes(ann: &Value, service: &str) -> Result<Vec<u8>, String> {
    Ok(match ann["kind"].as_str().unwrap() {
        "instance" | "goodbye-then-instance" | "flush-then-instance" => announcement_packet(service, &ann["inst"], 120)?,
        "instance+foreign" => {
            // a third-party encoder: the peer's records in the answer section, records of foreign
            // names in the additional section of the same packet
            let own = announcement_packet(service, &ann["inst"], 120)?;
            // (if the crate cannot read its own announcement back, the bytes go out as they are)
            let (mut p, src) = match (Packet::parse(&own), Packet::parse(&own)) {
                (Ok(a), Ok(b)) => (a.into_reply(), b),
                _ => return Ok(own.clone()),
            };
            for r in src.answers.iter().chain(src.additional_records.iter()) {
                if !p.answers.contains(r) {
                    p.answers.push(r.clone());
                }
            }
            let foreign_host = Name::new_unchecked("host9.local").into_owned();
            p.additional_records.push(ResourceRecord::new(foreign_host, CLASS::IN, 120, RData::A(A { address: 0x0a080808 })));
            let other_inst = Name::new_unchecked("zz._svc2._tcp.local").into_owned();
            p.additional_records.push(simple_mdns::conversion_utils::port_to_srv_record(&other_inst, 4444, 120));
            p.additional_records.push(ResourceRecord::new(other_inst, CLASS::IN, 120, RData::A(A { address: 0x0a090909 })));
            p.additional_records.push(ResourceRecord::new(Name::new(service).map_err(|e| e.to_string())?.into_owned(), CLASS::IN, 120,
                RData::TXT(simple_dns::rdata::TXT::new().with_string("leak=1").map_err(|e| e.to_string())?.into_owned())));
            p.build_bytes_vec_compressed().map_err(|e| e.to_string())?
        }
        "service-ptr" => {
            let mut p = Packet::new_reply(1);
            let target = Name::new_unchecked(Box::leak(format!("{}.{}", text(&ann["inst"]["name"]), service).into_boxed_str())).into_owned();
            p.answers.push(ResourceRecord::new(Name::new(service).map_err(|e| e.to_string())?.into_owned(), CLASS::IN, 120, RData::PTR(PTR(target))));
            p.build_bytes_vec_compressed().map_err(|e| e.to_string())?
        }
        _ => {
            let mut p = Packet::new_reply(1);
            p.answers.push(ResourceRecord::new(Name::new_unchecked("zz.local").into_owned(), CLASS::IN, 120, RData::A(A { address: 0x0a000063 })));
            p.answers.push(ResourceRecord::new(Name::new_unchecked("x_svc._tcp.local").into_owned(), CLASS::IN, 120, RData::A(A { address: 0x0a000064 })));
            p.build_bytes_vec_compressed().map_err(|e| e.to_string())?
        }
    })
}

fn tokio_rt() -> tokio::runtime::Runtime {
    tokio::runtime::Builder::new_multi_thread().worker_threads(2).enable_all().build().expect("tokio runtime")
}

/// one announcement history through into_records -> wire -> ingest (sync or async flavour) -> from_records
fn discover_once(c: &Value, asynchronous: bool, rt: &tokio::runtime::Runtime) -> (Vec<Value>, Vec<Value>, bool) {
    let watched = name_text(&c["watched"]);
    let own = text(&c["own"]);
    let r = guarded(|| -> Result<(Vec<Value>, Vec<Value>), String> {
        // the discoverer's store, initialised exactly as ServiceDiscovery::new_with_scope does
        let service_name = Name::new(&watched).map_err(|e| e.to_string())?.into_owned();
        let own_full = Name::new(&format!("{own}.{watched}")).map_err(|e| e.to_string())?.into_owned();
        let mut store = ResourceRecordManager::new();
        store.add_authoritative_resource(ResourceRecord::new(service_name.clone(), CLASS::IN, 120, RData::PTR(PTR(own_full.clone()))));
        let own_info = InstanceInformation::new(own.clone()).with_ip_address(Ipv4Addr::new(10, 9, 9, 9).into()).with_port(9);
        for r in own_info.into_records(&own_full, 120).map_err(|e| e.to_string())? {
            store.add_authoritative_resource(r);
        }
        let (tx, rx) = std::sync::mpsc::channel();
        let mut chan = Some(tx);
        let (atx, mut arx) = tokio::sync::mpsc::channel(64);
        let mut achan = Some(atx);
        for (i, ann) in c["anns"].as_array().unwrap().iter().enumerate() {
            let service = name_text(&ann["service"]);
            // a goodbye (TTL 0, or the records with the cache-flush bit) that precedes the announcement proper
            let kind = ann["kind"].as_str().unwrap_or("");
            if kind == "goodbye-then-instance" || kind == "flush-then-instance" {
                let first = if kind == "goodbye-then-instance" {
                    announcement_packet(&service, &ann["inst"], 0)?
                } else {
                    let plain = announcement_packet(&service, &ann["inst"], 120)?;
                    let mut p = Packet::new_reply(1);
                    if let Ok(src) = Packet::parse(&plain) {
                        for r in src.answers.iter() {
                            p.answers.push(r.to_cache_flush_record());
                        }
                    }
                    p.build_bytes_vec_compressed().map_err(|e| e.to_string())?
                };
                // (a goodbye that cannot be read back is never ingested)
                if let Ok(packet) = Packet::parse(&first) {
                if asynchronous {
                    rt.block_on(simple_mdns::verif::add_response_to_resources_async(packet, &service_name, &own_full, &mut store, &mut None));
                } else {
                    add_response_to_resources(packet, &service_name, &own_full, &mut store, &mut None);
                }
                }
            }
            let bytes = announcement_bytes(ann, &service)?;
            // (an announcement the crate wrote and cannot read back is simply never ingested: the instance will be
            // missing from what is reported, which is the verdict's business, not a set-up failure)
            let packet = match Packet::parse(&bytes) {
                Ok(p) => p,
                Err(_) => continue,
            };
            // alternate between the two ingest paths (with and without the on_discovery channel)
            match (asynchronous, i % 2 == 0) {
                (false, true) => add_response_to_resources(packet, &service_name, &own_full, &mut store, &mut chan),
                (false, false) => add_response_to_resources(packet, &service_name, &own_full, &mut store, &mut None),
                (true, true) => rt.block_on(simple_mdns::verif::add_response_to_resources_async(packet, &service_name, &own_full, &mut store, &mut achan)),
                (true, false) => rt.block_on(simple_mdns::verif::add_response_to_resources_async(packet, &service_name, &own_full, &mut store, &mut None)),
            }
        }
        let reported: std::collections::HashSet<InstanceInformation> = store
            .get_domain_resources(&service_name, DomainResourceFilter::cached())
            .filter_map(|rs| from_records(&service_name, rs))
            .collect();
        let mut notified: Vec<Value> = rx.try_iter().map(|i| instance_json(&i)).collect();
        while let Ok(i) = arx.try_recv() {
            notified.push(instance_json(&i));
        }
        Ok((reported.iter().map(instance_json).collect(), notified))
    });
    match r {
        Ok(Ok((rep, n))) => (rep, n, false),
        Ok(Err(why)) => {
            eprintln!("discover pipeline could not be set up: {why}");
            std::process::exit(2);
        }
        Err(_) => (vec![], vec![], true),
    }
}

pub fn run_discover(a: &Args) {
    let mut out = Out::new(&a.out, a.shards);
    let mut st = Stats::default();
    let rt = tokio_rt();
    for c in load_cases(a, 0) {
        for asynchronous in [false, true] {
            let (reported, notified, panicked) = discover_once(&c, asynchronous, &rt);
            st.case((c.to_string(), asynchronous), !reported.is_empty());
            out.emit(json!({"ev": "Discover", "cls": format!("discover{} anns={}", if asynchronous { "-async" } else { "" }, c["anns"].as_array().unwrap().len()),
                "watched": c["watched"], "own": c["own"], "anns": c["anns"], "reported": reported, "notified": notified, "panicked": panicked}));
        }
    }
    for c in load_cases(a, 1) {
        let s = text(&c["s"]);
        let esc = InstanceInformation::new(s.clone()).escaped_instance_name();
        let back = InstanceInformation::new(esc.clone()).unescaped_instance_name();
        st.case(("esc", &s), !s.is_empty());
        out.emit(json!({"ev": "Escape", "cls": "escape", "s": cps(&s), "esc": cps(&esc), "back": cps(&back)}));
    }
    out.finish(st.into_json("discover",
        "announcement sequences generated by TLC's random walks (Gen_Discover: up to 5 announcements from several peers -- instances of the watched and of a foreign service with 0..3 IPv4/IPv6 addresses, 0..2 ports, attribute maps with absent/empty/non-empty values; the discoverer's own instance echoed; the service PTR; unrelated names) are turned into records by into_records, cross the wire in compressed packets, are ingested by add_response_to_resources (both paths) into a store initialised like ServiceDiscovery::new, and reported through from_records; every string up to length 5 over {a . \\\\ e-acute} through escape/unescape; non-trivial = something reported / non-empty string",
        false));
}

// ------------------------------------------------------------------------------------ C14
struct Node {
    store: Arc<RwLock<ResourceRecordManager<'static>>>,
    service: Name<'static>,
    full: Name<'static>,
    // the application's on_discovery channels as the listener holds them (None once a send failed); the
    // "-closed" roles start with the receiving ends already dropped by the application
    chan: Arc<std::sync::Mutex<Option<std::sync::mpsc::Sender<InstanceInformation>>>>,
    achan: Arc<std::sync::Mutex<Option<tokio::sync::mpsc::Sender<InstanceInformation>>>>,
    // ... and the "-chan" roles keep theirs open (the application drains them)
    live: Arc<std::sync::Mutex<(Option<std::sync::mpsc::Sender<InstanceInformation>>, std::sync::mpsc::Receiver<InstanceInformation>)>>,
    alive: Arc<std::sync::Mutex<(Option<tokio::sync::mpsc::Sender<InstanceInformation>>, tokio::sync::mpsc::Receiver<InstanceInformation>)>>,
}

fn new_node() -> Node {
    let service = Name::new_unchecked("_svc._tcp.local").into_owned();
    let full = Name::new_unchecked("me._svc._tcp.local").into_owned();
    let mut store = ResourceRecordManager::new();
    store.add_authoritative_resource(ResourceRecord::new(service.clone(), CLASS::IN, 120, RData::PTR(PTR(full.clone()))));
    let info = InstanceInformation::new("me".into()).with_ip_address(Ipv4Addr::new(10, 9, 9, 9).into()).with_port(9).with_attribute("k".into(), Some("v".into()));
    for r in info.into_records(&full, 120).unwrap() {
        store.add_authoritative_resource(r);
    }
    // receivers dropped at once: the application lost interest in notifications
    let (tx, _) = std::sync::mpsc::channel();
    let (atx, _) = tokio::sync::mpsc::channel(4);
    let (ltx, lrx) = std::sync::mpsc::channel();
    let (latx, larx) = tokio::sync::mpsc::channel(64);
    Node { store: Arc::new(RwLock::new(store)), service, full, chan: Arc::new(std::sync::Mutex::new(Some(tx))), achan: Arc::new(std::sync::Mutex::new(Some(atx))),
        live: Arc::new(std::sync::Mutex::new((Some(ltx), lrx))), alive: Arc::new(std::sync::Mutex::new((Some(latx), larx))) }
}

thread_local! {
    static ASYNC_RT: tokio::runtime::Runtime = tokio::runtime::Builder::new_current_thread().enable_all().build().expect("tokio runtime");
}

fn outcome_of<T>(r: &Result<T, String>) -> &'static str {
    if r.is_ok() {
        "ok"
    } else {
        "panic"
    }
}

/// one datagram through the responder loop body (simple_responder.rs) or the discovery listener body
/// (service_discovery.rs): the same calls in the same order, each step under catch_unwind
fn handle(node: &Node, role: &str, d: &[u8]) -> Value {
    let mut steps: Vec<Value> = vec![];
    let mut reply: Vec<u8> = vec![];
    let mut reparse = "n/a";
    'pipeline: {
        if role == "responder" {
            let r = guarded(|| header_buffer::has_flags(d, PacketFlag::RESPONSE).unwrap_or(true));
            steps.push(json!(["peek", outcome_of(&r)]));
            match r {
                Ok(false) => {}
                _ => break 'pipeline,
            }
        }
        if role == "resolver" {
            // oneshot resolver: peeks into a 4096-byte receive buffer, then parses the datagram
            let mut buf = [0u8; 4096];
            let n = d.len().min(4096);
            buf[..n].copy_from_slice(&d[..n]);
            let r = guarded(|| {
                Ok::<bool, simple_dns::SimpleDnsError>(
                    header_buffer::has_flags(&buf, PacketFlag::RESPONSE)? && header_buffer::id(&buf)? == 0 && header_buffer::answers(&buf)? > 0,
                )
            });
            steps.push(json!(["peek", outcome_of(&r)]));
            match r {
                Ok(Ok(true)) => {}
                _ => break 'pipeline,
            }
            let r = guarded(|| {
                let name = Name::new_unchecked("me._svc._tcp.local");
                Packet::parse(&d[..n]).map(|p| {
                    // what query_service_address / query_service_address_and_port do with a response
                    let _ = p.answers.iter().filter(|a| a.name == name && a.match_qtype(simple_dns::TYPE::SRV.into())).count();
                    p.answers.iter().any(|a| a.name == name)
                })
            });
            steps.push(json!(["parse+match", outcome_of(&r)]));
            break 'pipeline;
        }
        let parsed = guarded(|| Packet::parse(d).map(|p| p.has_flags(PacketFlag::RESPONSE)));
        steps.push(json!(["parse", match &parsed { Ok(Ok(_)) => "ok", Ok(Err(_)) => "err", Err(_) => "panic" }]));
        let is_response = match parsed {
            Ok(Ok(r)) => r,
            _ => break 'pipeline,
        };
        if is_response && role == "discovery-chan" {
            let store = node.store.clone();
            let live = node.live.clone();
            let (service, full) = (node.service.clone(), node.full.clone());
            let r = guarded(move || {
                let packet = Packet::parse(d).unwrap();
                let mut guard = store.write().unwrap();
                let mut l = live.lock().unwrap_or_else(|e| e.into_inner());
                add_response_to_resources(packet, &service, &full, &mut guard, &mut l.0);
                while l.1.try_recv().is_ok() {}
            });
            steps.push(json!(["ingest-with-channel", outcome_of(&r)]));
        } else if is_response && role == "discovery-async-chan" {
            let store = node.store.clone();
            let live = node.alive.clone();
            let (service, full) = (node.service.clone(), node.full.clone());
            let r = guarded(move || {
                let packet = Packet::parse(d).unwrap();
                let mut guard = store.write().unwrap();
                let mut l = live.lock().unwrap_or_else(|e| e.into_inner());
                ASYNC_RT.with(|rt| rt.block_on(simple_mdns::verif::add_response_to_resources_async(packet, &service, &full, &mut guard, &mut l.0)));
                while l.1.try_recv().is_ok() {}
            });
            steps.push(json!(["ingest-async-with-channel", outcome_of(&r)]));
        } else if is_response && role == "discovery-closed" {
            let store = node.store.clone();
            let chan = node.chan.clone();
            let (service, full) = (node.service.clone(), node.full.clone());
            let r = guarded(move || {
                let packet = Packet::parse(d).unwrap();
                let mut guard = store.write().unwrap();
                let mut c = chan.lock().unwrap_or_else(|e| e.into_inner());
                add_response_to_resources(packet, &service, &full, &mut guard, &mut c);
            });
            steps.push(json!(["ingest-closed-channel", outcome_of(&r)]));
        } else if is_response && role == "discovery-async-closed" {
            let store = node.store.clone();
            let chan = node.achan.clone();
            let (service, full) = (node.service.clone(), node.full.clone());
            let r = guarded(move || {
                let packet = Packet::parse(d).unwrap();
                let mut guard = store.write().unwrap();
                let mut c = chan.lock().unwrap_or_else(|e| e.into_inner());
                ASYNC_RT.with(|rt| rt.block_on(simple_mdns::verif::add_response_to_resources_async(packet, &service, &full, &mut guard, &mut c)));
            });
            steps.push(json!(["ingest-async-closed-channel", outcome_of(&r)]));
        } else if is_response && role == "discovery-async" {
            let store = node.store.clone();
            let (service, full) = (node.service.clone(), node.full.clone());
            let r = guarded(move || {
                let packet = Packet::parse(d).unwrap();
                let mut guard = store.write().unwrap();
                ASYNC_RT.with(|rt| rt.block_on(simple_mdns::verif::add_response_to_resources_async(packet, &service, &full, &mut guard, &mut None)));
            });
            steps.push(json!(["ingest-async", outcome_of(&r)]));
        } else if is_response && role == "discovery" {
            let store = node.store.clone();
            let (service, full) = (node.service.clone(), node.full.clone());
            let r = guarded(move || {
                let packet = Packet::parse(d).unwrap();
                let mut guard = store.write().unwrap();
                add_response_to_resources(packet, &service, &full, &mut guard, &mut None);
            });
            steps.push(json!(["ingest", outcome_of(&r)]));
        } else if !is_response {
            let store = node.store.clone();
            let r = guarded(move || {
                let packet = Packet::parse(d).unwrap();
                let guard = store.read().unwrap();
                build_reply(packet, &guard).map(|(p, _)| p.build_bytes_vec_compressed())
            });
            steps.push(json!(["reply+serialise", match &r { Ok(Some(Ok(_))) => "ok", Ok(Some(Err(_))) => "err", Ok(None) => "skip", Err(_) => "panic" }]));
            if let Ok(Some(Ok(b))) = r {
                reparse = if Packet::parse(&b).is_ok() { "ok" } else { "err" };
                reply = b;
            }
        }
    }
    let poisoned = node.store.is_poisoned();
    // the application must still be able to use the store (get_known_services / add_resource do this)
    let usable = guarded(|| {
        let store = node.store.clone();
        let n = match store.read() {
            // (what get_known_services() does with the store)
            Ok(g) => g.get_domain_resources(&node.service, DomainResourceFilter::cached()).filter_map(|rs| from_records(&node.service, rs)).count(),
            Err(_) => return false,
        };
        let _ = n;
        let w = store.write().is_ok();
        w
    })
    .unwrap_or(false);
    json!({"role": role, "steps": steps, "poisoned": poisoned, "usable": usable, "reply": bytes_json(&reply), "reparse": reparse})
}

fn hostile_label_response(label: &[u8], under_service: bool) -> Vec<u8> {
    hostile_labels_response(&[label.to_vec()], under_service)
}

fn hostile_labels_response(labels: &[Vec<u8>], under_service: bool) -> Vec<u8> {
    // a response whose records are owned by <labels>._svc._tcp.local (ingested by the discoverer)
    let mut owner = vec![];
    for label in labels {
        owner.push(label.len() as u8);
        owner.extend(label);
    }
    if under_service {
        owner.extend(b"\x04_svc\x04_tcp\x05local\x00");
    } else {
        owner.extend(b"\x05local\x00");
    }
    let mut m = vec![0, 0, 0x84, 0, 0, 0, 0, 2, 0, 0, 0, 0];
    m.extend(&owner);
    m.extend([0, 1, 0x80, 1, 0, 0, 0, 120, 0, 4, 10, 1, 1, 1]);
    m.extend(&owner);
    m.extend([0, 16, 0, 1, 0, 0, 0, 120, 0, 3, 2, 0xFF, b'=']);
    m
}

fn hostile_label_query(label: &[u8]) -> Vec<u8> {
    hostile_labels_query(&[label.to_vec()], true)
}

fn hostile_labels_query(labels: &[Vec<u8>], under_service: bool) -> Vec<u8> {
    let mut m = vec![0, 7, 0, 0, 0, 1, 0, 0, 0, 0, 0, 0];
    for label in labels {
        m.push(label.len() as u8);
        m.extend(label);
    }
    if under_service {
        m.extend(b"\x04_svc\x04_tcp\x05local\x00\x00\xff\x00\x01");
    } else {
        m.extend(b"\x05local\x00\x00\xff\x00\x01");
    }
    m
}

/// leading labels that bring a name with a suffix of `suffix` wire bytes (root included) to `total` wire bytes:
/// labels of `unit` bytes and one shorter label in front
fn labels_to_total(total: usize, suffix: usize, unit: usize) -> Vec<Vec<u8>> {
    let mut left = total.saturating_sub(suffix);
    let mut v = vec![];
    while left >= unit + 1 {
        v.push(vec![b'm'; unit]);
        left -= unit + 1;
    }
    if left >= 2 {
        v.insert(0, vec![b'r'; left - 1]);
    } else if left == 1 && !v.is_empty() {
        // one byte cannot be a label of its own: lengthen ... no, shorten the last unit label and add a 1-byte label
        let l = v.pop().unwrap();
        if l.len() >= 2 {
            v.push(l[1..].to_vec());
            v.insert(0, vec![b'r'; 1]);
        } else {
            v.push(l);
        }
    }
    v
}

pub fn run_datagram(a: &Args) {
    let mut out = Out::new(&a.out, a.shards);
    let mut st = Stats::default();
    let mut rng = StdRng::seed_from_u64(a.seed);
    let thorough = a.tier == "thorough";
    // datagram classes
    let mut grams: Vec<(String, Vec<u8>)> = vec![];
    for len in 0..=12usize {
        for fill in [0u8, 0x80, 0xFF] {
            grams.push((format!("short len={len}"), vec![fill; len]));
        }
    }
    let valid_query = {
        let mut p = Packet::new_query(7);
        p.questions.push(simple_dns::Question::new(Name::new_unchecked("_svc._tcp.local"), simple_dns::QTYPE::ANY, simple_dns::QCLASS::ANY, false));
        p.build_bytes_vec_compressed().unwrap()
    };
    let srv_query = {
        let mut p = Packet::new_query(8);
        p.questions.push(simple_dns::Question::new(Name::new_unchecked("me._svc._tcp.local"), simple_dns::TYPE::SRV.into(), CLASS::IN.into(), true));
        p.build_bytes_vec().unwrap()
    };
    let valid_response = announcement_packet("_svc._tcp.local", &json!({"name": cps("peer"), "ips": [[4, 10, 0, 0, 5]], "ports": [80], "attrs": [[cps("k"), ["some", cps("v")]]]}), 120).unwrap();
    grams.push(("valid query".into(), valid_query.clone()));
    grams.push(("valid srv query".into(), srv_query.clone()));
    grams.push(("valid response".into(), valid_response.clone()));
    // queries that carry known answers (RFC 6762 7.1): copies of what the node serves, with TTL 0 / 1 / 60 / the
    // served TTL, and records it does not serve
    for ttl in [0u32, 1, 60, 120, u32::MAX] {
        let mut q = Packet::new_query(7);
        q.questions.push(simple_dns::Question::new(Name::new_unchecked("_svc._tcp.local"), simple_dns::QTYPE::ANY, CLASS::IN.into(), false));
        q.questions.push(simple_dns::Question::new(Name::new_unchecked("me._svc._tcp.local"), simple_dns::TYPE::A.into(), CLASS::IN.into(), true));
        let full = Name::new_unchecked("me._svc._tcp.local");
        let info = InstanceInformation::new("me".into()).with_ip_address(Ipv4Addr::new(10, 9, 9, 9).into()).with_port(9).with_attribute("k".into(), Some("v".into()));
        for r in info.into_records(&full, ttl).unwrap() {
            q.answers.push(r);
        }
        q.answers.push(ResourceRecord::new(Name::new_unchecked("_svc._tcp.local"), CLASS::IN, ttl, RData::PTR(PTR(full.clone()))));
        q.answers.push(ResourceRecord::new(Name::new_unchecked("other._svc._tcp.local"), CLASS::IN, ttl, RData::A(A { address: 1 })));
        grams.push(("valid query with known answers".into(), q.build_bytes_vec_compressed().unwrap()));
    }
    // responses of an ordinary peer of the watched service whose TXT record holds unusual character-strings
    // (the listener turns them into an attribute map)
    {
        let txts: Vec<Vec<&[u8]>> = vec![
            vec![b"k=\""], vec![b"\""], vec![b"="], vec![b"k="], vec![b";"], vec![b"k=\"v\""], vec![b"\"=\""], vec![b"k=\"\""], vec![b" k = v "], vec![b"k", b"k=v", b"K=w"],
            vec![b"\xff=\xfe"], vec![b"k=\xc3"], vec![b"=v"], vec![b""], vec![b"", b"a=b", b""], vec![&[b'x'; 255]], vec![b"a=1;b=2"], vec![b"k=v=w=="], vec![b"\\=\\"], vec![b"'='"],
        ];
        for (i, strings) in txts.iter().enumerate() {
            let mut m = vec![0, 0, 0x84, 0, 0, 0, 0, 2, 0, 0, 0, 0];
            let owner = format!("\x02t{}\x04_svc\x04_tcp\x05local\x00", (b'a' + (i % 26) as u8) as char).into_bytes();
            m.extend(&owner);
            let rdlen: usize = strings.iter().map(|s| 1 + s.len()).sum();
            m.extend([0, 16, 0, 1, 0, 0, 0, 120]);
            m.extend((rdlen as u16).to_be_bytes());
            for s in strings {
                m.push(s.len() as u8);
                m.extend(*s);
            }
            m.extend(&owner);
            m.extend([0, 1, 0, 1, 0, 0, 0, 120, 0, 4, 10, 2, 2, i as u8]);
            grams.push(("hostile-txt response".into(), m));
        }
    }
    let mut hostile_labels: Vec<Vec<u8>> = vec![vec![0xFFu8], vec![0xC3], vec![0x00], vec![b'.'], vec![b'\\'], vec![0xFF; 63], vec![b'a'; 63], b"me".to_vec(), vec![0xE9, 0x80]];
    // labels whose text rendering is longer than the label (every invalid byte becomes a 3-byte replacement
    // character, e-acute is 2 bytes, an emoji 4) behind 0..3 ASCII bytes: every alignment of char boundaries
    // against any byte limit a consumer of the rendered name may apply
    for pre in 0..4usize {
        for (unit, count) in [(&[0xFFu8][..], 20usize), (&[0xFF][..], 39), (&[0xFF][..], 59), (&[0xC3, 0xA9][..], 29), (&[0xF0, 0x9F, 0x98, 0x80][..], 14)] {
            let mut l = vec![b'a'; pre];
            for _ in 0..count {
                l.extend_from_slice(unit);
            }
            l.truncate(63);
            hostile_labels.push(l);
        }
    }
    // names at the size limits: 253, 254 and 255 wire bytes (the maximum), 256 (refused by the parser), made of
    // 63-byte labels, of 1-byte labels (127 labels) and of 7-byte labels, under the watched service and outside it
    for total in [253usize, 254, 255, 256] {
        for unit in [63usize, 1, 7] {
            for under in [true, false] {
                let labels = labels_to_total(total, if under { 17 } else { 7 }, unit);
                grams.push((format!("long-name response total={total}"), hostile_labels_response(&labels, under)));
                grams.push((format!("long-name query total={total}"), hostile_labels_query(&labels, under)));
            }
        }
    }
    for label in hostile_labels {
        grams.push(("hostile-name response".into(), hostile_label_response(&label, true)));
        grams.push(("hostile-name response (not under service)".into(), hostile_label_response(&label, false)));
        grams.push(("hostile-name query".into(), hostile_label_query(&label)));
    }
    // truncations and perturbations of valid traffic
    for (cls, base) in [("query", &valid_query), ("srv query", &srv_query), ("response", &valid_response)] {
        for cut in 0..base.len() {
            grams.push((format!("truncated {cls}"), base[..cut].to_vec()));
        }
        for pos in 0..base.len() {
            for d in [1u8, 255] {
                let mut m = base.to_vec();
                m[pos] = m[pos].wrapping_add(d);
                grams.push((format!("perturbed {cls}"), m));
            }
        }
    }
    // messages of the specification's generators (all record types, hostile strings), as queries and as responses
    for idx in 0..a.cases.len() {
        for (i, c) in load_cases(a, idx).iter().enumerate() {
            if !thorough && i % 3 != 0 {
                continue;
            }
            let msg = json_bytes(&c["msg"]);
            if msg.len() >= 12 {
                let mut q = msg.clone();
                q[2] &= 0x7F;
                grams.push(("generator message as query".into(), q));
                let mut r = msg.clone();
                r[2] |= 0x80;
                grams.push(("generator message as response".into(), r));
            }
        }
    }
    for i in 0..(if thorough { 20000 } else { 1500 }) {
        let len = if i % 50 == 0 { rng.gen_range(1000..9001) } else { rng.gen_range(0..200) };
        let mut b: Vec<u8> = (0..len).map(|_| rng.gen()).collect();
        if len >= 12 {
            b[3] &= 0xBF;
            for c in [4usize, 6, 8, 10] {
                b[c] = 0;
                b[c + 1] = rng.gen_range(0..3);
            }
        }
        grams.push(("random".into(), b));
    }
    // sessions: hostile datagrams interleaved with valid traffic, against one node per role
    for role in ["responder", "discovery", "discovery-async", "resolver", "discovery-closed", "discovery-async-closed", "discovery-chan", "discovery-async-chan"] {
        let node = new_node();
        for (i, (cls, d)) in grams.iter().enumerate() {
            // the closed-channel listeners only differ on responses that carry records of the watched service
            if (role.ends_with("-closed") || role.ends_with("-chan")) && !(cls.starts_with("valid") || cls.starts_with("hostile") || i % 10 == 0) {
                continue;
            }
            let mut e = handle(&node, role, d);
            e["ev"] = json!("Datagram");
            e["cls"] = json!(format!("{role} {cls}"));
            e["b"] = bytes_json(d);
            st.case((role, d), e["reply"].as_array().map(|r| !r.is_empty()).unwrap_or(false) || e["steps"].as_array().map(|s| s.len() > 1).unwrap_or(false));
            out.emit(e);
            if i % 40 == 39 {
                // the probe: valid traffic is still handled after the hostile datagrams
                let mut e = handle(&node, role, if role != "resolver" { &valid_query } else { &valid_response });
                let answered = e["reply"].as_array().map(|r| !r.is_empty()).unwrap_or(false);
                e["ev"] = json!("Datagram");
                e["cls"] = json!(format!("{role} probe answered={answered}"));
                e["b"] = bytes_json(&valid_query);
                if role != "resolver" && !answered {
                    e["steps"].as_array_mut().unwrap().push(json!(["probe-unanswered", "panic"]));
                }
                out.emit(e);
            }
        }
    }
    // sampled: the same datagrams against the real socket loops on loopback multicast
    let sample: Vec<(String, Vec<u8>)> = grams.iter().enumerate().filter(|(i, (c, _))| i % 7 == 0 || c.starts_with("short") || c.starts_with("hostile")).map(|(_, g)| g.clone()).take(600).collect();
    let e = net_event(a, &sample);
    st.counters.insert("net_datagrams_sent".into(), e["sent"].as_u64().unwrap_or(0));
    st.counters.insert(format!("net_answered_{}", e["answered"].as_str().unwrap_or("?")), 1);
    out.emit(e);
    out.finish(st.into_json("datagram",
        "datagrams of length 0..12 (three fill bytes), valid queries/responses, responses and queries naming non-UTF-8 / NUL / dot / backslash / maximal labels under and outside the watched service, every truncation and +-1 perturbation of valid traffic, the messages of Gen_RData and Gen_Inspect as queries and as responses, seeded random datagrams up to 9000 bytes -- each handled by the responder, discovery-listener and one-shot-resolver pipelines (peek, parse, build_reply / add_response_to_resources under a real RwLock, compressed serialisation, re-parse) with a valid probe every 40 datagrams; non-trivial = the datagram got past the first pipeline step",
        false));
}

// ------------------------------------------------------------------------------------ C14 on real sockets (sampled)
/// Starts the real SimpleMdnsResponder and ServiceDiscovery (threads + loopback multicast sockets), sends
/// hostile datagrams, then probes.  Only positive observations count: a panic on a library thread
/// (seen by the process-wide panic hook), a poisoned store.  Anything else is "inconclusive".
pub fn net_event(a: &Args, grams: &[(String, Vec<u8>)]) -> Value {
    use simple_mdns::sync_discovery::{ServiceDiscovery, SimpleMdnsResponder};
    use std::net::UdpSocket;
    use std::time::Duration;
    let unique = format!("v{}x{}", std::process::id(), a.seed);
    let setup = guarded(|| -> Result<(SimpleMdnsResponder, ServiceDiscovery, UdpSocket), String> {
        let mut responder = SimpleMdnsResponder::new(10);
        responder.add_resource(ResourceRecord::new(Name::new_unchecked(&format!("{unique}.local")).into_owned(), CLASS::IN, 10, RData::A(A { address: 0x0a000001 })));
        let discovery = ServiceDiscovery::new(InstanceInformation::new(format!("me{unique}")).with_port(9), &format!("_{unique}._tcp.local"), 60).map_err(|e| e.to_string())?;
        let tx = UdpSocket::bind("0.0.0.0:0").map_err(|e| e.to_string())?;
        tx.set_read_timeout(Some(Duration::from_millis(400))).map_err(|e| e.to_string())?;
        Ok((responder, discovery, tx))
    });
    // the tokio flavours of the same services, on their own runtime
    let rt = tokio_rt();
    let aunique = format!("a{unique}");
    let async_up = guarded(|| -> Result<(simple_mdns::async_discovery::SimpleMdnsResponder, simple_mdns::async_discovery::ServiceDiscovery), String> {
        let _enter = rt.enter();
        let mut r = simple_mdns::async_discovery::SimpleMdnsResponder::new(10);
        rt.block_on(r.add_resource(ResourceRecord::new(Name::new_unchecked(&format!("{aunique}.local")).into_owned(), CLASS::IN, 10, RData::A(A { address: 0x0a000003 }))));
        let d = simple_mdns::async_discovery::ServiceDiscovery::new(InstanceInformation::new(format!("me{aunique}")).with_port(9), &format!("_{aunique}._tcp.local"), 60)
            .map_err(|e| e.to_string())?;
        Ok((r, d))
    });
    let async_services = match async_up {
        Ok(Ok(x)) => Some(x),
        _ => None,
    };
    let (responder, discovery, tx) = match setup {
        Ok(Ok(x)) => x,
        Ok(Err(why)) => return json!({"ev": "NetRun", "cls": "net inconclusive", "sent": 0, "panics": [], "usable": "inconclusive", "answered": "inconclusive", "answered_discovery": "inconclusive", "answered_async": "inconclusive", "answered_async_discovery": "inconclusive", "async_usable": "inconclusive", "resolver": [], "replies": [], "note": why}),
        Err(at) => return json!({"ev": "NetRun", "cls": "net setup", "sent": 0, "panics": [at], "usable": "inconclusive", "answered": "inconclusive", "answered_discovery": "inconclusive", "answered_async": "inconclusive", "answered_async_discovery": "inconclusive", "async_usable": "inconclusive", "resolver": [], "replies": [], "note": "panic during setup"}),
    };
    std::thread::sleep(Duration::from_millis(300));
    let target = "224.0.0.251:5353";
    // a probe: a valid unicast-response query; answered iff a reply with our id comes back
    // every reply that comes back to a probe is recorded: [probe id, length, parses]
    let replies: std::cell::RefCell<Vec<Value>> = std::cell::RefCell::new(vec![]);
    let probe = |name: &str, qtype: simple_dns::QTYPE, id: u16, tries: usize| -> bool {
        let mut q = Packet::new_query(id);
        q.questions.push(simple_dns::Question::new(Name::new_unchecked(name).into_owned(), qtype, CLASS::IN.into(), true));
        let qb = q.build_bytes_vec().unwrap();
        for _ in 0..tries {
            let _ = tx.send_to(&qb, target);
            let mut buf = vec![0u8; 65535];
            for _ in 0..4 {
                if let Ok((n, _)) = tx.recv_from(&mut buf) {
                    if header_buffer::id(&buf[..n]).ok() == Some(id) && header_buffer::has_flags(&buf[..n], PacketFlag::RESPONSE).unwrap_or(false) {
                        let parses = matches!(guarded(|| Packet::parse(&buf[..n]).is_ok()), Ok(true));
                        replies.borrow_mut().push(json!([id, n, parses]));
                        return true;
                    }
                } else {
                    break;
                }
            }
        }
        false
    };
    let rname = format!("{unique}.local");
    let sname = format!("_{unique}._tcp.local");
    let arname = format!("{aunique}.local");
    let asname = format!("_{aunique}._tcp.local");
    let before_responder = probe(&rname, simple_dns::TYPE::A.into(), 0x7701, 3);
    let before_discovery = probe(&sname, simple_dns::QTYPE::ANY, 0x7702, 3);
    let before_aresponder = async_services.is_some() && probe(&arname, simple_dns::TYPE::A.into(), 0x7711, 3);
    let before_adiscovery = async_services.is_some() && probe(&asname, simple_dns::QTYPE::ANY, 0x7712, 3);
    // big replies: one legal query that repeats the same question many times (each is answered separately), so
    // that the reply is larger than any buffer size a sender may assume (> 9000 bytes); whatever comes back on
    // the wire must be a parseable message
    let big_probe = |name: &str, qtype: simple_dns::QTYPE, id: u16, count: usize| {
        let mut q = Packet::new_query(id);
        for _ in 0..count {
            q.questions.push(simple_dns::Question::new(Name::new_unchecked(name).into_owned(), qtype, CLASS::IN.into(), true));
        }
        let qb = match guarded(|| q.build_bytes_vec_compressed()) {
            Ok(Ok(b)) if b.len() <= 9000 => b,
            _ => return,
        };
        let _ = tx.send_to(&qb, target);
        let mut buf = vec![0u8; 65535];
        for _ in 0..3 {
            if let Ok((n, _)) = tx.recv_from(&mut buf) {
                if header_buffer::id(&buf[..n]).ok() == Some(id) && header_buffer::has_flags(&buf[..n], PacketFlag::RESPONSE).unwrap_or(false) {
                    let parses = matches!(guarded(|| Packet::parse(&buf[..n]).is_ok()), Ok(true));
                    replies.borrow_mut().push(json!([id, n, parses]));
                    break;
                }
            } else {
                break;
            }
        }
    };
    if before_responder {
        big_probe(&rname, simple_dns::TYPE::A.into(), 0x7721, 900);
    }
    if before_discovery {
        big_probe(&sname, simple_dns::QTYPE::ANY, 0x7722, 200);
    }
    if before_aresponder {
        big_probe(&arname, simple_dns::TYPE::A.into(), 0x7723, 900);
    }
    if before_adiscovery {
        big_probe(&asname, simple_dns::QTYPE::ANY, 0x7724, 200);
    }
    // the one-shot resolver (sync flavour) keeps resolving the responder's name while the hostile datagrams fly;
    // responses carrying its query id (0) reach its parsing code
    let resolver_name = rname.clone();
    let nobody_name = format!("nobody{unique}.local");
    let nobody_service = format!("_nobody{unique}._tcp.local");
    let (n2, s2) = (nobody_name.clone(), nobody_service.clone());
    let stop = Arc::new(std::sync::atomic::AtomicBool::new(false));
    let stop2 = stop.clone();
    let resolver_thread = std::thread::spawn(move || {
        crate::util::install_panic_hook();
        let mut outcomes: Vec<Vec<String>> = vec![];
        let r = guarded(|| {
            let mut res = simple_mdns::sync_discovery::OneShotMdnsResolver::new().map_err(|e| e.to_string())?;
            res.set_query_timeout(Duration::from_millis(300));
            res.set_unicast_response(false);
            let mut v: Vec<Vec<String>> = vec![];
            let mut rounds = 0;
            // keep resolving until the hostile traffic is over: a name the responder answers at once, a name
            // nobody answers (the resolver reads everything that arrives until its timeout), and the
            // address-and-port resolution of a service nobody answers
            while !stop2.load(std::sync::atomic::Ordering::SeqCst) && rounds < 200 {
                rounds += 1;
                for name in [&resolver_name, &n2] {
                    let o = match res.query_service_address(name) {
                        Ok(Some(ip)) => vec!["some".to_string(), ip.to_string()],
                        Ok(None) => vec!["none".to_string()],
                        Err(e) => vec!["err".to_string(), e.to_string()],
                    };
                    if !v.contains(&o) {
                        v.push(o);
                    }
                }
                let o = match res.query_service_address_and_port(&s2) {
                    Ok(Some(a)) => vec!["some".to_string(), a.to_string()],
                    Ok(None) => vec!["none".to_string()],
                    Err(e) => vec!["err".to_string(), e.to_string()],
                };
                if !v.contains(&o) {
                    v.push(o);
                }
            }
            Ok::<Vec<Vec<String>>, String>(v)
        });
        match r {
            Ok(Ok(v)) => outcomes = v,
            Ok(Err(e)) => outcomes.push(vec!["setup-failed".to_string(), e]),
            Err(at) => outcomes.push(vec!["panic".to_string(), at]),
        }
        outcomes
    });
    // the tokio flavour of the resolver, doing the same on the shared runtime
    let (n3, s3, r3) = (nobody_name.clone(), nobody_service.clone(), rname.clone());
    let stop3 = stop.clone();
    let rt_handle = rt.handle().clone();
    let aresolver_thread = std::thread::spawn(move || {
        crate::util::install_panic_hook();
        let r = guarded(|| {
            rt_handle.block_on(async {
                let mut res = simple_mdns::async_discovery::OneShotMdnsResolver::new().map_err(|e| e.to_string())?;
                res.set_query_timeout(Duration::from_millis(300));
                res.set_unicast_response(false);
                let mut v: Vec<Vec<String>> = vec![];
                let mut rounds = 0;
                while !stop3.load(std::sync::atomic::Ordering::SeqCst) && rounds < 200 {
                    rounds += 1;
                    for name in [&r3, &n3] {
                        let o = match res.query_service_address(name).await {
                            Ok(Some(ip)) => vec!["some".to_string(), ip.to_string()],
                            Ok(None) => vec!["none".to_string()],
                            Err(e) => vec!["err".to_string(), e.to_string()],
                        };
                        if !v.contains(&o) {
                            v.push(o);
                        }
                    }
                    let o = match res.query_service_address_and_port(&s3).await {
                        Ok(Some(a)) => vec!["some".to_string(), a.to_string()],
                        Ok(None) => vec!["none".to_string()],
                        Err(e) => vec!["err".to_string(), e.to_string()],
                    };
                    if !v.contains(&o) {
                        v.push(o);
                    }
                }
                Ok::<Vec<Vec<String>>, String>(v)
            })
        });
        match r {
            Ok(Ok(v)) => v,
            Ok(Err(e)) => vec![vec!["setup-failed".to_string(), e]],
            Err(at) => vec![vec!["panic".to_string(), at]],
        }
    });
    // responses aimed at the resolver: id 0, answers (and additionals) owned by the names it is asking for,
    // with empty, truncated and mistyped RDATA
    let mut targeted: Vec<Vec<u8>> = vec![];
    for owner in [&rname, &nobody_name, &nobody_service] {
        let on = Name::new_unchecked(owner).into_owned();
        let mut wire_name = vec![];
        for l in on.get_labels() {
            let t = l.to_string();
            wire_name.push(t.len() as u8);
            wire_name.extend(t.as_bytes());
        }
        wire_name.push(0);
        for ty in [1u16, 28, 33, 16, 12, 5] {
            for rd in [&[][..], &[0, 0, 0][..], &[1, 2, 3, 4][..], &[0, 0, 0, 0, 0, 80, 0][..]] {
                for (an, ar) in [(1u16, 0u16), (1, 1), (0, 1)] {
                    let mut d = vec![0, 0, 0x84, 0, 0, 0];
                    d.extend(an.to_be_bytes());
                    d.extend([0, 0]);
                    d.extend(ar.to_be_bytes());
                    for _ in 0..(an + ar) {
                        d.extend(&wire_name);
                        d.extend(ty.to_be_bytes());
                        d.extend([0, 1, 0, 0, 0, 10]);
                        d.extend((rd.len() as u16).to_be_bytes());
                        d.extend(rd);
                    }
                    targeted.push(d);
                }
            }
        }
    }
    let mut sent = 0u64;
    for (i, (_, d)) in grams.iter().enumerate() {
        if d.len() <= 9000 && tx.send_to(d, target).is_ok() {
            sent += 1;
        }
        // the same datagram dressed as a response to the resolver's query id 0
        if d.len() >= 12 && i % 3 == 0 {
            let mut r = d.clone();
            r[0] = 0;
            r[1] = 0;
            r[2] |= 0x80;
            if r[6] == 0 && r[7] == 0 {
                r[7] = 1;
            }
            let _ = tx.send_to(&r, target);
        }
        if i % 25 == 24 {
            std::thread::sleep(Duration::from_millis(20));
        }
    }
    for round in 0..6 {
        for (i, d) in targeted.iter().enumerate() {
            if tx.send_to(d, target).is_ok() {
                sent += 1;
            }
            if i % 40 == 39 {
                std::thread::sleep(Duration::from_millis(15));
            }
        }
        std::thread::sleep(Duration::from_millis(if round == 5 { 400 } else { 60 }));
    }
    stop.store(true, std::sync::atomic::Ordering::SeqCst);
    let mut resolver_outcomes = resolver_thread.join().unwrap_or_else(|_| vec![vec!["panic".to_string(), "thread".to_string()]]);
    for mut o in aresolver_thread.join().unwrap_or_else(|_| vec![vec!["panic".to_string(), "async thread".to_string()]]) {
        o.push("async".to_string());
        resolver_outcomes.push(o);
    }
    let after_responder = probe(&rname, simple_dns::TYPE::A.into(), 0x7703, 6);
    let after_discovery = probe(&sname, simple_dns::QTYPE::ANY, 0x7704, 6);
    let after_aresponder = before_aresponder && probe(&arname, simple_dns::TYPE::A.into(), 0x7713, 6);
    let after_adiscovery = before_adiscovery && probe(&asname, simple_dns::QTYPE::ANY, 0x7714, 6);
    // control: if a probe went unanswered, is the network still delivering?  A fresh responder must answer.
    let mut control = true;
    if (before_responder && !after_responder) || (before_discovery && !after_discovery)
        || (before_aresponder && !after_aresponder) || (before_adiscovery && !after_adiscovery)
    {
        let cname = format!("c{unique}.local");
        let mut fresh = SimpleMdnsResponder::new(10);
        fresh.add_resource(ResourceRecord::new(Name::new_unchecked(&cname).into_owned(), CLASS::IN, 10, RData::A(A { address: 0x0a000002 })));
        std::thread::sleep(Duration::from_millis(300));
        control = probe(&cname, simple_dns::TYPE::A.into(), 0x7705, 6);
    }
    // a loop is positively dead when it answered before the hostile traffic, does not answer after it,
    // and the network demonstrably still works (the control responder answers)
    let verdict = |before: bool, after: bool| if !before { "inconclusive" } else if after { "yes" } else if control { "no" } else { "inconclusive" };
    let answered = verdict(before_responder, after_responder);
    let answered_discovery = verdict(before_discovery, after_discovery);
    let answered_async = verdict(before_aresponder, after_aresponder);
    let answered_async_discovery = verdict(before_adiscovery, after_adiscovery);
    let async_usable = match &async_services {
        Some((_, d)) => match guarded(|| rt.block_on(d.get_known_services()).len()) {
            Ok(_) => "yes",
            Err(_) => "no",
        },
        None => "inconclusive",
    };
    let usable = match guarded(|| discovery.get_known_services().len()) {
        Ok(_) => "yes",
        Err(_) => "no",
    };
    drop(responder);
    let panics: Vec<String> = FOREIGN_PANICS.lock().map(|v| v.clone()).unwrap_or_default();
    json!({"ev": "NetRun", "cls": "net responder+discovery", "sent": sent, "panics": panics, "usable": usable, "answered": answered,
        "answered_discovery": answered_discovery, "answered_async": answered_async, "answered_async_discovery": answered_async_discovery,
        "async_usable": async_usable, "resolver": resolver_outcomes, "replies": replies.into_inner(), "note": ""})
}
