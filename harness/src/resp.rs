//! C13 on real sockets (sampled): the real SimpleMdnsResponder (sync and tokio flavours) answers queries sent
//! over the loopback multicast group.  What arrives at a plain socket (only unicast replies can reach it) and
//! at a socket joined to the group like the services' own (multicast replies) is recorded per query; the trace
//! specification judges content (the reply bounds of Store.tla) and destination (unicast iff some question
//! asked for it).
use crate::proj::*;
use crate::util::*;
use serde_json::{json, Value};
use simple_dns::rdata::{RData, A, AAAA, SRV, TXT};
use simple_dns::{header_buffer, Name, Packet, PacketFlag, Question, ResourceRecord, CLASS, QCLASS, QTYPE, TYPE};
use std::net::UdpSocket;
use std::time::{Duration, Instant};

fn catalogue(u: &str) -> Vec<ResourceRecord<'static>> {
    let n = |s: &str| Name::new_unchecked(Box::leak(format!("{s}{u}.local").into_boxed_str())).into_owned();
    vec![
        ResourceRecord::new(n("host."), CLASS::IN, 10, RData::A(A { address: 0x0a000001 })),
        ResourceRecord::new(n("host."), CLASS::IN, 10, RData::AAAA(AAAA { address: 1 })),
        ResourceRecord::new(n("svc."), CLASS::IN, 10, RData::SRV(SRV { priority: 0, weight: 0, port: 8080, target: n("host.") })),
        ResourceRecord::new(n("svc."), CLASS::IN, 10, RData::TXT(TXT::new().with_string("k=v").unwrap().into_owned())),
        ResourceRecord::new(n("sub.host."), CLASS::IN, 10, RData::A(A { address: 0x0a000002 })),
        ResourceRecord::new(n(""), CLASS::IN, 10, RData::A(A { address: 0x0a000009 })),
        ResourceRecord::new(n("ch."), CLASS::CH, 10, RData::A(A { address: 0x0a000003 })),
    ]
}

fn queries(u: &str) -> Vec<Vec<(String, QTYPE, QCLASS, bool)>> {
    let n = |s: &str| format!("{s}{u}.local");
    let a: QTYPE = TYPE::A.into();
    let inn: QCLASS = CLASS::IN.into();
    vec![
        vec![(n("host."), a, inn, true)],
        vec![(n("host."), a, inn, false)],
        vec![(n("svc."), QTYPE::ANY, inn, true)],
        vec![(n("svc."), TYPE::SRV.into(), inn, false)],
        vec![(n("host."), a, inn, true), (n("svc."), TYPE::TXT.into(), inn, false)],
        vec![(n("host."), a, inn, false), (n("host."), TYPE::AAAA.into(), inn, true)],
        vec![(n("nothere."), a, inn, true)],
        vec![(n(""), a, inn, false)],
        vec![(n("host."), TYPE::AAAA.into(), CLASS::CH.into(), true)],
        vec![(n("ch."), a, QCLASS::ANY, true)],
        vec![(n("host."), TYPE::TXT.into(), inn, false)],
        vec![(n("svc."), TYPE::SRV.into(), QCLASS::ANY, true), (n("nothere."), a, inn, false)],
    ]
}

fn collect(sock: &UdpSocket, id: u16, until: Instant, into: &mut Vec<Value>) {
    let mut buf = [0u8; 9000];
    while Instant::now() < until {
        match sock.recv_from(&mut buf) {
            Ok((n, _)) => {
                let b = &buf[..n];
                if header_buffer::id(b).ok() == Some(id) && header_buffer::has_flags(b, PacketFlag::RESPONSE).unwrap_or(false) {
                    into.push(match Packet::parse(b) {
                        Ok(p) => project_packet(&p),
                        Err(_) => json!({"unparsed": bytes_json(b)}),
                    });
                }
            }
            Err(_) => {}
        }
    }
}

fn run_flavour(asynchronous: bool, tier: &str, rt: &tokio::runtime::Runtime) -> Result<Value, String> {
    let u = format!("r{}{}", std::process::id(), if asynchronous { "a" } else { "s" });
    let records = catalogue(&u);
    // the responders are kept alive to the end of the function
    let mut sync_responder = None;
    let mut async_responder = None;
    let started = guarded(|| {
        if asynchronous {
            let _enter = rt.enter();
            let mut r = simple_mdns::async_discovery::SimpleMdnsResponder::new(10);
            for rec in &records {
                rt.block_on(r.add_resource(rec.clone()));
            }
            async_responder = Some(r);
        } else {
            let mut r = simple_mdns::sync_discovery::SimpleMdnsResponder::new(10);
            for rec in &records {
                r.add_resource(rec.clone());
            }
            sync_responder = Some(r);
        }
    });
    if let Err(at) = started {
        return Err(format!("responder could not be started: {at}"));
    }
    let uni = UdpSocket::bind("0.0.0.0:0").map_err(|e| e.to_string())?;
    uni.set_read_timeout(Some(Duration::from_millis(40))).map_err(|e| e.to_string())?;
    let multi = simple_mdns::verif::join_multicast_v4().map_err(|e| e.to_string())?;
    multi.set_read_timeout(Some(Duration::from_millis(40))).map_err(|e| e.to_string())?;
    std::thread::sleep(Duration::from_millis(400));
    let attempts = if tier == "thorough" { 3 } else { 2 };
    let mut qs: Vec<Value> = vec![];
    for (qi, q) in queries(&u).iter().enumerate() {
        let mut atts: Vec<Value> = vec![];
        for k in 0..attempts {
            let id = 0x6000u16 + (qi as u16) * 8 + k as u16 + if asynchronous { 0x0800 } else { 0 };
            let mut p = Packet::new_query(id);
            for (name, qt, qc, qu) in q {
                p.questions.push(Question::new(Name::new_unchecked(Box::leak(name.clone().into_boxed_str())), *qt, *qc, *qu));
            }
            let bytes = p.build_bytes_vec().map_err(|e| e.to_string())?;
            uni.send_to(&bytes, "224.0.0.251:5353").map_err(|e| e.to_string())?;
            let until = Instant::now() + Duration::from_millis(350);
            let (mut got_uni, mut got_multi) = (vec![], vec![]);
            // the two sockets are drained in turn until the window closes
            while Instant::now() < until {
                collect(&uni, id, Instant::now() + Duration::from_millis(45), &mut got_uni);
                collect(&multi, id, Instant::now() + Duration::from_millis(45), &mut got_multi);
            }
            atts.push(json!({"id": id, "uni": got_uni, "multi": got_multi}));
        }
        let qd: Vec<Value> = {
            let mut p = Packet::new_query(0);
            for (name, qt, qc, qu) in q {
                p.questions.push(Question::new(Name::new_unchecked(Box::leak(name.clone().into_boxed_str())), *qt, *qc, *qu));
            }
            p.questions.iter().map(project_question).collect()
        };
        qs.push(json!({"qd": qd, "attempts": atts}));
    }
    drop(sync_responder);
    drop(async_responder);
    let panics: Vec<String> = FOREIGN_PANICS.lock().map(|v| v.clone()).unwrap_or_default();
    Ok(json!({"ev": "RespRun", "cls": format!("resprun {}", if asynchronous { "async" } else { "sync" }), "flavour": if asynchronous { "async" } else { "sync" },
        "records": records.iter().map(project_rr).collect::<Vec<_>>(), "queries": qs, "panics": panics, "note": ""}))
}

pub fn run(a: &Args) {
    let mut out = Out::new(&a.out, a.shards);
    let mut st = Stats::default();
    let rt = tokio::runtime::Builder::new_multi_thread().worker_threads(2).enable_all().build().expect("tokio runtime");
    for asynchronous in [false, true] {
        match run_flavour(asynchronous, &a.tier, &rt) {
            Ok(e) => {
                st.case(asynchronous, true);
                st.bump("resprun");
                out.emit(e);
            }
            Err(why) => {
                st.case(asynchronous, false);
                st.bump("resprun-inconclusive");
                out.emit(json!({"ev": "RespRun", "cls": "resprun inconclusive", "flavour": if asynchronous { "async" } else { "sync" }, "records": [], "queries": [], "panics": [], "note": why}));
            }
        }
    }
    out.finish(st.into_json("resprun",
        "the real SimpleMdnsResponder (sync and tokio flavours) serving seven records (A, AAAA, SRV, TXT, a subdomain, the parent, a CH-class record) answers twelve queries (QU and non-QU, one and two questions, ANY / SRV / TXT / A / AAAA, classes IN / CH / ANY, a name nobody owns) sent over the loopback multicast group, each attempted 2-3 times; replies are collected at a plain socket (unicast) and at a socket joined to the group (multicast); sampled, not exhaustive; non-trivial = the sockets could be set up",
        false));
}
