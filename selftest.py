"""Binding demonstration (./check selftest): the trace specification really constrains the recorded
traces, and the Impl models really can see the pinned tree's design defects.

 1. every negative model configuration (spec/Neg_*.cfg) must be REFUTED by TLC;
 2. recorded traces of the real code are accepted with no rule failure; the same traces with ONE field
    corrupted (a flag mask, a resume cursor, a reply's answer, a timestamp) must produce a RULE-FAIL at
    exactly that event; with one event REMOVED from a store session (as if a hook were missing) the
    following reply must fail; an event of unknown kind must make the whole trace be rejected.
"""
import json
import os
import shutil
import subprocess
import sys

ROOT = os.path.dirname(os.path.abspath(__file__))
sys.path.insert(0, ROOT)


def main(argv):
    import importlib.util
    import importlib.machinery
    loader = importlib.machinery.SourceFileLoader("check_mod", os.path.join(ROOT, "check"))
    spec = importlib.util.spec_from_loader("check_mod", loader)
    chk = importlib.util.module_from_spec(spec)
    loader.exec_module(chk)

    wd = os.path.join(chk.WORK, f"selftest-{os.getpid()}")
    shutil.rmtree(wd, ignore_errors=True)
    os.makedirs(wd)
    bad = 0
    try:
        chk.build_harness()
        # ---- 1. negative configurations
        negs = [("MC_NameWire", "Neg_NameWire_pinned.cfg"), ("MC_Compress", "Neg_Compress_noguard.cfg"),
                ("MC_Compress", "Neg_Compress_absolute.cfg"), ("MC_Store", "Neg_Store_concat.cfg"),
                ("MC_Store", "Neg_Store_overwrite.cfg"), ("MC_Mdns", "Neg_Mdns_pinned.cfg"), ("MC_Sink", "Neg_Sink_seekend.cfg"),
                ("MC_Discovery", "Neg_Discovery_keeplater.cfg"), ("MC_Discovery", "Neg_Discovery_portless.cfg"),
                ("MC_Discovery", "Neg_Discovery_shortttl.cfg"), ("MC_Discovery", "Neg_Discovery_asyncbye.cfg"),
                ("MC_Discovery", "Neg_Discovery_lostfirst.cfg"),
                ("MC_DiscoveryLive", "Neg_DiscoveryLive_lossy.cfg"), ("MC_DiscoveryLive", "Neg_DiscoveryLive_async.cfg")]
        for mod, cfg in negs:
            rc, out = chk.tlc(mod + ".tla", os.path.join(chk.SPEC, cfg), os.path.join(wd, "md_" + cfg), 4, 600)
            refuted = "is violated" in out or "was violated" in out
            chk.log(f"selftest: {cfg}: {'refuted by TLC (as it must be)' if refuted else 'NOT refuted'}")
            bad += 0 if refuted else 1

        # ---- 2. corruptions
        def record(topic, extra=None, cases=None):
            tdir = os.path.join(wd, "t_" + topic)
            shutil.rmtree(tdir, ignore_errors=True)
            cmd = [chk.VH, topic, "--tier", "quick", "--seed", "1", "--out", tdir, "--shards", "1"] + (extra or [])
            for c in cases or []:
                cmd += ["--cases", c]
            rc, out = chk.sh(cmd, timeout=600)
            assert rc == 0, out[-2000:]
            return os.path.join(tdir, "trace_00.ndjson")

        def validate(lines, rules, name):
            tdir = os.path.join(wd, "v_" + name)
            shutil.rmtree(tdir, ignore_errors=True)
            os.makedirs(tdir)
            with open(os.path.join(tdir, "trace_00.ndjson"), "w") as f:
                f.write("\n".join(lines) + "\n")
            try:
                res = chk.validate_traces(tdir, rules, wd)
                return [(l, r) for x in res for (l, r, _d) in x["fails"]], True
            except chk.ToolError:
                return [], False

        # (a) header words: corrupt one observed flag mask
        lines = open(record("hdr")).read().splitlines()[:6]
        fails, ok = validate(lines, ["HdrFields", "FlagAlgebra"], "hdr_ok")
        assert ok and not fails, "clean hdr trace must be accepted"
        ev = json.loads(lines[2])
        i = next(k for k, p in enumerate(ev["p"]) if p[0] == "ok")
        ev["p"][i][2] ^= 0x0100  # flip RD in what parse reported
        lines2 = list(lines)
        lines2[2] = json.dumps(ev)
        fails, ok = validate(lines2, ["HdrFields", "FlagAlgebra"], "hdr_bad")
        good = ok and fails == [(3, "HdrFields")]
        chk.log(f"selftest: corrupted flag mask in event 3 -> {fails} {'OK' if good else 'UNEXPECTED'}")
        bad += 0 if good else 1

        # (b) name decoding: corrupt a resume cursor
        gen = os.path.join(wd, "name_cases.ndjson")
        chk.run_gen("Gen_NameWire", "Gen_NameWire.cfg", wd, gen, 4, 300)
        lines = [l for l in open(record("name", cases=[gen])).read().splitlines() if '"ok"' in l][:5]
        fails, ok = validate(lines, ["NameNoPanic", "NameRef", "NameMustErr"], "name_ok")
        assert ok and not fails, "clean name trace must be accepted"
        ev = json.loads(lines[1])
        i = next(k for k, r in enumerate(ev["r"]) if r[0] == "ok")
        ev["r"][i][2] += 1
        lines2 = list(lines)
        lines2[1] = json.dumps(ev)
        fails, ok = validate(lines2, ["NameNoPanic", "NameRef", "NameMustErr"], "name_bad")
        good = ok and fails == [(2, "NameRef")]
        chk.log(f"selftest: corrupted resume cursor in event 2 -> {fails} {'OK' if good else 'UNEXPECTED'}")
        bad += 0 if good else 1

        # (c) store session: remove the event that registers a record that is later answered
        lines = [
            json.dumps({"ev": "Reset", "session": True, "cls": "reset"}),
            json.dumps({"ev": "StoreOp", "session": True, "cls": "store add_auth", "op": "add_auth", "t0": 0, "t1": 1, "out": "ok",
                        "rec": {"name": [[97]], "type": 1, "class": 1, "cf": False, "ttl": [0, 0, 0, 9], "rd": [[10, 0, 0, 1]]}}),
            json.dumps({"ev": "Reply", "session": True, "cls": "reply", "id": 7,
                        "qd": [{"name": [[97]], "qtype": 1, "qclass": 1, "unicast": False}],
                        "out": ["some", {"id": 7, "fs": 32768, "opcode": 0, "rcode": 0, "opt": [], "qd": [],
                                         "an": [{"name": [[97]], "type": 1, "class": 1, "cf": False, "ttl": [0, 0, 0, 9], "rd": [[10, 0, 0, 1]]}],
                                         "ns": [], "ar": []}, False]}),
        ]
        rules = ["ReplyUpper", "ReplyLower", "ReplyAddl", "ReplyMeta", "ReplyNone"]
        fails, ok = validate(lines, rules, "store_ok")
        good1 = ok and not fails
        fails, ok = validate([lines[0], lines[2]], rules, "store_missing_event")
        good2 = ok and fails == [(2, "ReplyUpper")]
        chk.log(f"selftest: store session accepted={good1}; with the add_auth event removed -> {fails} "
                f"{'OK' if good1 and good2 else 'UNEXPECTED'}")
        bad += 0 if (good1 and good2) else 1

        # (d) expiry: a cached record shown after its TTL must be rejected
        rec = {"name": [[97]], "type": 1, "class": 1, "cf": False, "ttl": [0, 0, 0, 1], "rd": [[10, 0, 0, 1]]}
        lines = [
            json.dumps({"ev": "Reset", "session": True, "cls": "reset"}),
            json.dumps({"ev": "StoreOp", "session": True, "cls": "x", "op": "add_cached", "t0": 0, "t1": 1, "out": "ok", "rec": rec}),
            json.dumps({"ev": "StoreQuery", "session": True, "cls": "x", "name": [[97]], "filter": "cached", "t0": 500, "t1": 501,
                        "recs": [rec], "panicked": False}),
            json.dumps({"ev": "StoreQuery", "session": True, "cls": "x", "name": [[97]], "filter": "cached", "t0": 1300, "t1": 1301,
                        "recs": [rec], "panicked": False}),
        ]
        rules = ["QueryUpper", "AuthNotCached", "AuthForever", "CacheExpired", "CacheVisible"]
        fails, ok = validate(lines, rules, "expiry")
        good = ok and fails == [(4, "CacheExpired")]
        chk.log(f"selftest: cached record shown 300 ms after expiry -> {fails} {'OK' if good else 'UNEXPECTED'}")
        bad += 0 if good else 1

        # (e) structural: an event the specification has no action for
        fails, ok = validate([json.dumps({"ev": "NoSuchEvent", "cls": "x"})], ["NoPanic"], "structural")
        chk.log(f"selftest: unknown event kind -> trace {'rejected (as it must be)' if not ok else 'ACCEPTED'}")
        bad += 0 if not ok else 1
    finally:
        shutil.rmtree(wd, ignore_errors=True)
    chk.log("selftest ok" if bad == 0 else f"selftest FAILED ({bad})")
    return 0 if bad == 0 else 2
