SPECIFICATION Spec
CONSTANTS
  SeekBack = "written-end"
  MaxStart = 3
INVARIANT SinkSame
INVARIANT SinkErr
CHECK_DEADLOCK FALSE
