----------------------------- MODULE MC_Header -----------------------------
(***************************************************************************)
(* Model of the packet-header builder API as a state machine, checked       *)
(* exhaustively: every reachable header encodes to a word that decodes back *)
(* to the same fields (C08, build side) and flag operations change only the *)
(* named bits.  Also the exhaustive word-level identities over 0..65535.    *)
(***************************************************************************)
EXTENDS Header, TLC

VARIABLES fs, opcode, rcode
vars == <<fs, opcode, rcode>>

Init == /\ fs \in {{}, {"qr"}}          \* new_query / new_reply
        /\ opcode = 0 /\ rcode = 0

SetFlags(S)    == fs' = FlagsSet(fs, S) /\ UNCHANGED <<opcode, rcode>>
RemoveFlags(S) == fs' = FlagsRemove(fs, S) /\ UNCHANGED <<opcode, rcode>>
SetOpcode(o)   == opcode' = o /\ UNCHANGED <<fs, rcode>>
SetRcode(r)    == rcode' = r /\ UNCHANGED <<fs, opcode>>

FlagArgs == {{n} : n \in FlagNames} \cup {{"qr", "aa"}, {"tc", "rd", "ra"}, {"ad", "cd"}, FlagNames, {}}
Next == \/ \E S \in FlagArgs : SetFlags(S) \/ RemoveFlags(S)
        \/ \E o \in NamedOpcodes : SetOpcode(o)
        \/ \E r \in NamedRcodes : SetRcode(r)

Spec == Init /\ [][Next]_vars

Word == FlagWord(fs, opcode, rcode)

\* C08 build side: what is written reads back as the same fields, Z clear
RoundTrip == /\ HdrFlagSet(Word) = fs
             /\ HdrOpcode(Word) = opcode
             /\ HdrRcode(Word) = rcode % 16
             /\ ~HdrZ(Word)
             /\ Word \in 0 .. 65535

\* setting / removing flags touches only flag bits of the word: the non-flag part
\* (opcode, rcode, Z) of the encoded word is unchanged whenever opcode/rcode are
OnlyNamedBits ==
  [][(opcode' = opcode /\ rcode' = rcode) =>
        (Word' - MaskOf(fs')) = (Word - MaskOf(fs))]_vars

\* word-level identities over all 65536 words (evaluated once)
ASSUME \A w \in 0 .. 65535 :
         ~HdrZ(w) => FlagWord(HdrFlagSet(w), HdrOpcode(w), HdrRcode(w)) = w
ASSUME \A w \in 0 .. 65535 :
         HdrZ(w) => FlagWord(HdrFlagSet(w), HdrOpcode(w), HdrRcode(w)) = w - 64
ASSUME \A a, b \in SUBSET FlagNames : MaskOf(FlagsSet(a, b)) >= MaskOf(a)
=============================================================================
