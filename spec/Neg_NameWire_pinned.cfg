SPECIFICATION Spec
CONSTANTS
  MaxLabel = 3
  MaxName = 8
  Alphabet = {0, 1, 2, 3, 4, 64, 128, 192, 193, 194, 97}
  L = 4
  GuardReadAt = "pos"
  HopBudget = 4
INVARIANT NoOOB
INVARIANT Refines
INVARIANT Bounded
PROPERTY Progress
CHECK_DEADLOCK FALSE
