SPECIFICATION Spec
INVARIANT RoundTrip
PROPERTY OnlyNamedBits
CHECK_DEADLOCK FALSE
