SPECIFICATION Spec
CONSTANTS
  Symbols = {97, 65, 49, 45, 95, 46, 92, 233, 32, 10}
  L = 5
INVARIANT RefIdentities
INVARIANT Emit
CHECK_DEADLOCK FALSE
