SPECIFICATION Spec
CONSTANTS
  Deltas <- DeltasThorough
  Pairwise = FALSE
  MaxLabel = 63
  MaxName = 255
INVARIANT ExactOK
INVARIANT EmptyOK
INVARIANT FarOK
INVARIANT ReentryOK
INVARIANT Emit
CHECK_DEADLOCK FALSE
