SPECIFICATION Spec
CONSTANTS
  Deltas = {-9, -4, -3, -2, -1, 1, 2, 3, 4, 7, 16, 255}
  Pairwise = FALSE
  MaxLabel = 63
  MaxName = 255
INVARIANT ExactOK
INVARIANT Emit
CHECK_DEADLOCK FALSE
