------------------------------ MODULE NameText ------------------------------
(***************************************************************************)
(* The textual name API (C17): the label grammar the crate documents for    *)
(* names created from text, dot splitting, display, and the suffix algebra. *)
(* Text is a sequence of Unicode code points; labels are byte sequences.    *)
(* A label with a non-ASCII code point is never valid, so "characters" and  *)
(* "bytes" coincide on every accepted label.                                *)
(***************************************************************************)
EXTENDS Naturals, Integers, Sequences, FiniteSets

Dot == 46
IsDigit(c) == c \in 48 .. 57
IsUpper(c) == c \in 65 .. 90
IsLower(c) == c \in 97 .. 122
IsAlnum(c) == IsDigit(c) \/ IsUpper(c) \/ IsLower(c)
Hyphen == 45
Underscore == 95

\* split at dots, dropping empty labels
RECURSIVE SplitAcc(_, _, _, _)
SplitAcc(s, i, cur, acc) ==
  IF i > Len(s) THEN (IF cur = <<>> THEN acc ELSE Append(acc, cur))
  ELSE IF s[i] = Dot THEN SplitAcc(s, i + 1, <<>>, IF cur = <<>> THEN acc ELSE Append(acc, cur))
  ELSE SplitAcc(s, i + 1, Append(cur, s[i]), acc)
SplitLabels(s) == SplitAcc(s, 1, <<>>, <<>>)

\* 1-63 characters, first alnum or '_', middle alnum '-' '_', last alnum
TextLabelOK(lb) ==
  /\ Len(lb) \in 1 .. 63
  /\ IsAlnum(lb[1]) \/ lb[1] = Underscore
  /\ \A i \in 2 .. Len(lb) : IsAlnum(lb[i]) \/ lb[i] = Hyphen \/ lb[i] = Underscore
  /\ IsAlnum(lb[Len(lb)])

RECURSIVE TextWireLen(_)
TextWireLen(ls) == IF ls = <<>> THEN 1 ELSE 1 + Len(Head(ls)) + TextWireLen(Tail(ls))

TextAccept(s) ==
  LET ls == SplitLabels(s) IN
  /\ \A i \in 1 .. Len(ls) : TextLabelOK(ls[i])
  /\ TextWireLen(ls) <= 255

RECURSIVE JoinDots(_)
JoinDots(ls) == IF ls = <<>> THEN <<>>
                ELSE IF Len(ls) = 1 THEN ls[1]
                ELSE ls[1] \o <<Dot>> \o JoinDots(Tail(ls))
DisplayText(ls) == JoinDots(ls)

\* suffix algebra on label sequences
IsSuffix(y, x) == Len(y) <= Len(x) /\ SubSeq(x, Len(x) - Len(y) + 1, Len(x)) = y
IsSubdomainOf(x, y) == Len(x) > Len(y) /\ IsSuffix(y, x)
Without(x, y) == SubSeq(x, 1, Len(x) - Len(y))      \* meaningful iff IsSubdomainOf(x, y)

ToLowerByte(c) == IF c \in 65 .. 90 THEN c + 32 ELSE c
LowerLabel(lb) == [i \in 1 .. Len(lb) |-> ToLowerByte(lb[i])]
LocalLabel == <<108, 111, 99, 97, 108>>
IsLinkLocal(ls) == ls # <<>> /\ LowerLabel(ls[Len(ls)]) = LocalLabel
=============================================================================
