--------------------------------- MODULE Mdns ---------------------------------
(***************************************************************************)
(* mDNS / DNS-SD behaviour on top of the store (C14, C15), RFC 6762/6763.   *)
(*                                                                          *)
(* Ref for C15: what a discoverer watching a service must report after a    *)
(* sequence of announcements: exactly the instances of that service         *)
(* announced by others, with the same name, address set, port set and       *)
(* attribute map; plus the escaping of instance names (RFC 6763 4.3).       *)
(***************************************************************************)
EXTENDS Naturals, Sequences, FiniteSets

SetOfSeq(q) == {q[i] : i \in 1 .. Len(q)}

\* an announcement: [service |-> labels, inst |-> [name |-> code points, ips, ports, attrs]]
\* the instances a discoverer watching `watched` with own instance name `own` must report
ExpectedInstances(anns, watched, own) ==
  {[name |-> a.inst.name, ips |-> SetOfSeq(a.inst.ips), ports |-> SetOfSeq(a.inst.ports), attrs |-> SetOfSeq(a.inst.attrs)] :
     a \in {x \in SetOfSeq(anns) : x.kind \in {"instance", "instance+foreign", "goodbye-then-instance", "flush-then-instance"} /\ x.service = watched /\ x.inst.name # own}}

ReportedSet(rep) ==
  {[name |-> rep[i].name, ips |-> SetOfSeq(rep[i].ips), ports |-> SetOfSeq(rep[i].ports), attrs |-> SetOfSeq(rep[i].attrs)] :
     i \in 1 .. Len(rep)}

\* RFC 6763 4.3 escaping of dots and backslashes in instance names
RECURSIVE Escape(_)
Escape(s) == IF s = <<>> THEN <<>>
             ELSE (IF Head(s) \in {46, 92} THEN <<92, Head(s)>> ELSE <<Head(s)>>) \o Escape(Tail(s))
RECURSIVE Unescape(_)
Unescape(s) == IF s = <<>> THEN <<>>
               ELSE IF Head(s) = 92 THEN (IF Len(s) >= 2 THEN <<s[2]>> \o Unescape(SubSeq(s, 3, Len(s))) ELSE <<>>)
               ELSE <<Head(s)>> \o Unescape(Tail(s))
=============================================================================
