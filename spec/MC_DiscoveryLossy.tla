---------------------------- MODULE MC_DiscoveryLossy ----------------------------
(* MC_Discovery_lossy: the same protocol model (Discovery.tla) under another configuration, see MC_DiscoveryLossy.cfg *)
EXTENDS MC_Discovery
=============================================================================
