SPECIFICATION LiveSpec
CONSTANTS
  p1 = p1
  p2 = p2
  p3 = p3
  Peers <- TwoPeers
  Ported <- TwoPeers
  TTL = 12
  MaxTime = 8
  Lossy = FALSE
  KeepLater = FALSE
  DropUntil = 1000
  Async <- TwoPeers
INVARIANT TypeOK
PROPERTY EventuallyForgottenAll
CHECK_DEADLOCK FALSE
