---------------------------- MODULE Gen_NameWire ----------------------------
(* Generator (direction spec -> impl) for C06: TLC enumerates every buffer up  *)
(* to length L over the boundary alphabet and prints it as one case; the       *)
(* harness decodes a name at every start offset of every case with the real    *)
(* crate.  The expected results are NOT printed: the trace specification       *)
(* recomputes them from RefDecodeName when it validates the recorded events.   *)
EXTENDS Naturals, Sequences, FiniteSets, TLC, Json

CONSTANTS Alphabet, L
VARIABLE buf

Init == buf \in UNION {[1 .. n -> Alphabet] : n \in 0 .. L}
Next == UNCHANGED buf
Spec == Init /\ [][Next]_buf

Emit == PrintT(<<"CASE", ToJson([b |-> buf])>>)
=============================================================================
