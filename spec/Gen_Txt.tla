------------------------------- MODULE Gen_Txt -------------------------------
(* C19 generator + Ref identities.  Mode "text": every string up to length L     *)
(* over {a ; = U+013B U+013D U+00E9 U+1F600} (U+013B/U+013D are congruent to     *)
(* ';' and '=' modulo 256).  Mode "map": every attribute map with up to 3 keys   *)
(* from a small universe and absent / empty / non-empty values.                  *)
EXTENDS Txt, TLC, Json, SequencesExt

CONSTANTS Symbols, L
VARIABLES mode, s, m
vars == <<mode, s, m>>

Keys == {<<97>>, <<98>>, <<97, 98>>, <<233>>}
Vals == {<<"none">>, <<"some", <<>>>>, <<"some", <<118>>>>, <<"some", <<120, 61, 121>>>>, <<"some", <<59, 128512>>>>}
\* keys made of white space, or with white space at either end: nothing in RFC 6763 strips them
OddKeys == {<<32>>, <<9>>, <<32, 32>>, <<32, 97>>, <<97, 32>>}
Maps == UNION {[K -> Vals] : K \in {K \in SUBSET Keys : Cardinality(K) <= 3}}
          \cup UNION {[K -> Vals] : K \in {K \in SUBSET (Keys \cup OddKeys) : Cardinality(K) <= 2 /\ K \cap OddKeys # {}}}

Init == \/ mode = "text" /\ s \in UNION {[1 .. n -> Symbols] : n \in 0 .. L} /\ m = <<>>
        \/ mode = "map" /\ s = <<>> /\ m \in Maps
Next == UNCHANGED vars
Spec == Init /\ [][Next]_vars

MapPairs == {<<k, m[k]>> : k \in DOMAIN m}

\* Ref identities: the one-piece chunking is admissible for short text; attributes read back from
\* the entries of a map give the map (absent /= empty), whatever the order of the entries
Identities ==
  IF mode = "text" THEN
    /\ PiecesOK(s, IF s = <<>> THEN <<>> ELSE <<Utf8OfSeq(s)>>)
    /\ Utf8Ok(Utf8OfSeq(s))
    /\ \A p \in LongAttrs(s) : p[1] # <<>>
  ELSE
    \A ord \in {o \in [1 .. Cardinality(DOMAIN m) -> DOMAIN m] : \A i, j \in DOMAIN o : i # j => o[i] # o[j]} :
      LET strs == [i \in DOMAIN ord |-> EntryOf(ord[i], m[ord[i]])] IN
      {<<Utf8OfSeq(p[1]), p[2]>> : p \in {<<k, IF m[k][1] = "none" THEN <<"none">> ELSE <<"some", Utf8OfSeq(m[k][2])>>>> : k \in DOMAIN m}}
        = AttrsOfStrings(strs)

Emit == PrintT(<<"CASE", ToJson(IF mode = "text" THEN [mode |-> mode, s |-> s, m |-> <<>>]
                                ELSE [mode |-> mode, s |-> <<>>, m |-> SetToSeq(MapPairs)])>>)
=============================================================================
