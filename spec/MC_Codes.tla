------------------------------ MODULE MC_Codes ------------------------------
(* Self-consistency of the code tables and of the matching relation, checked  *)
(* exhaustively by TLC over all 65536 codes (constant-level ASSUMEs) and over  *)
(* the question/record pair space as a small state machine.                   *)
EXTENDS Codes, TLC

ASSUME TablesInjective
ASSUME Cardinality(SupportedTypes) = 41
ASSUME \A c \in 0 .. 65535 : QTypeSupported(c) <=> (c \in SupportedTypes \/ c \in 251 .. 255)
\* matching is reflexive on types, ANY matches all, MAILB exactly the mailbox group
ASSUME \A t \in SupportedTypes : MatchQType(t, t) /\ MatchQType(t, 255)
ASSUME \A t \in 0 .. 250 : MatchQType(t, 253) <=> t \in {7, 8, 9}
ASSUME \A t \in SupportedTypes, q \in SupportedTypes : MatchQType(t, q) <=> t = q

VARIABLES t, q
Init == t \in SupportedTypes \cup {99} /\ q \in SupportedTypes \cup {253, 255}
Next == UNCHANGED <<t, q>>
Spec == Init /\ [][Next]_<<t, q>>
Inv == MatchQType(t, q) <=> (q = 255 \/ q = t \/ (q = 253 /\ t \in MailboxGroup))
=============================================================================
