SPECIFICATION Spec
CONSTANTS
  MaxLabel = 63
  MaxName = 255
  PtrLimit = 15
  MaxNames = 4
  Guard = TRUE
  Relative = FALSE
  Origins = {0, 3}
INVARIANT Transparent
INVARIANT NotLonger
INVARIANT PointerRules
CHECK_DEADLOCK FALSE
