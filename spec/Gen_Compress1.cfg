SPECIFICATION Spec
CONSTANTS
  Pairwise = FALSE
  MaxLabel = 63
  MaxName = 255
  Shape = 1
INVARIANT AllDecode
INVARIANT Emit
CHECK_DEADLOCK FALSE
