--------------------------------- MODULE Txt ---------------------------------
(***************************************************************************)
(* TXT text and attribute conversions (C19), RFC 1035 3.3.14 / RFC 6763 6.  *)
(* Text is a sequence of Unicode code points; TXT strings are byte strings. *)
(* An attribute value is <<"none">> (key only) or <<"some", text>>.         *)
(***************************************************************************)
EXTENDS Bytes, FiniteSets

Semi == 59
Equals == 61

\* split a sequence at every occurrence of c (empty pieces kept)
RECURSIVE SplitAll(_, _, _, _)
SplitAll(s, c, i, cur) ==
  IF i > Len(s) THEN <<cur>>
  ELSE IF s[i] = c THEN <<cur>> \o SplitAll(s, c, i + 1, <<>>)
  ELSE SplitAll(s, c, i + 1, Append(cur, s[i]))

\* split at the first occurrence of c: <<key, <<"none">>>> or <<key, <<"some", rest>>>>
SplitFirst(s, c) ==
  IF \E i \in 1 .. Len(s) : s[i] = c
  THEN LET i == CHOOSE i \in 1 .. Len(s) : s[i] = c /\ \A j \in 1 .. i - 1 : s[j] # c IN
       <<SubSeq(s, 1, i - 1), <<"some", SubSeq(s, i + 1, Len(s))>>>>
  ELSE <<s, <<"none">>>>

\* first occurrence of a key wins; pairs: sequence of <<key, value>>
RECURSIVE FirstWins(_, _)
FirstWins(pairs, seen) ==
  IF pairs = <<>> THEN {}
  ELSE IF Head(pairs)[1] \in seen THEN FirstWins(Tail(pairs), seen)
  ELSE {Head(pairs)} \cup FirstWins(Tail(pairs), seen \cup {Head(pairs)[1]})

\* TXT::attributes on a list of strings (each split at its first '='); strings with a missing
\* (empty) key are ignored (RFC 6763 6.4), which includes the lone empty string of an empty record
AttrsOfStrings(strs) ==
  FirstWins(SelectSeq([i \in 1 .. Len(strs) |-> SplitFirst(strs[i], Equals)], LAMBDA p : p[1] # <<>>), {})

\* TXT::long_attributes on the joined text: split at ';', then at the first '='; empty keys dropped
LongAttrs(s) ==
  LET parts == SplitAll(s, Semi, 1, <<>>)
      kv == [i \in 1 .. Len(parts) |-> SplitFirst(parts[i], Equals)]
      nonempty == SelectSeq(kv, LAMBDA p : p[1] # <<>>) IN
  FirstWins(nonempty, {})

\* an admissible chunking of text into TXT strings
PiecesOK(s, pieces) ==
  /\ \A i \in 1 .. Len(pieces) : Len(pieces[i]) <= 255
  /\ Concat(pieces) = Utf8OfSeq(s)

\* the entry a (key, value) pair becomes in a TXT record
EntryOf(k, v) == IF v[1] = "none" THEN Utf8OfSeq(k) ELSE Utf8OfSeq(k) \o <<Equals>> \o Utf8OfSeq(v[2])
AttrWithinLimits(k, v) == Equals \notin {k[i] : i \in 1 .. Len(k)} /\ Len(EntryOf(k, v)) <= 255
=============================================================================
