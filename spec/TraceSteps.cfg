SPECIFICATION TraceSpec
CONSTANTS
  MaxLabel = 63
  MaxName = 255
  Alphabet = {0}
  L = 0
  GuardReadAt = "ptr"
  HopBudget = 127
POSTCONDITION Accepted
CHECK_DEADLOCK FALSE
