-------------------------------- MODULE Values --------------------------------
(***************************************************************************)
(* "Same value" on the abstract projections (C16): the equality each type   *)
(* of the crates documents, against which the real PartialEq / Hash / Clone *)
(* / into_owned implementations are judged.                                 *)
(*   name      equal iff the label sequences are equal (byte-wise)          *)
(*   rdata     equal iff type code and field values are equal               *)
(*   record    equal iff owner, class and RDATA are equal (TTL and the      *)
(*             cache-flush bit are NOT part of record equality)             *)
(*   instance  equal iff name, address set, port set and attribute map are  *)
(*             equal (sets and maps: order of insertion is irrelevant)      *)
(***************************************************************************)
EXTENDS Naturals, Sequences, FiniteSets

SetOf(q) == {q[i] : i \in 1 .. Len(q)}

SpecEq(kind, a, b) ==
  CASE kind = "name" -> a = b
    [] kind = "rdata" -> a = b
    [] kind = "rr" -> a.name = b.name /\ a.class = b.class /\ a.type = b.type /\ a.rd = b.rd
    [] kind = "instance" -> /\ a.name = b.name /\ SetOf(a.ips) = SetOf(b.ips) /\ SetOf(a.ports) = SetOf(b.ports)
                            /\ SetOf(a.attrs) = SetOf(b.attrs)
    [] OTHER -> a = b
=============================================================================
