SPECIFICATION Spec
CONSTANTS
  p1 = p1
  p2 = p2
  p3 = p3
  Peers <- TwoPeers
  Ported <- TwoPeers
  TTL = 12
  MaxTime = 26
  Lossy = FALSE
  KeepLater = FALSE
  DropUntil = 1000
  Async <- NoPeers
INVARIANT TypeOK
INVARIANT RemoveSaysGoodbye
INVARIANT GoodbyeHonoured
INVARIANT NeverPartial
INVARIANT NothingForeign
INVARIANT Prompt
INVARIANT Stable
CHECK_DEADLOCK FALSE
