SPECIFICATION Spec
CONSTANTS
  Pairwise = FALSE
  MaxLabel = 63
  MaxName = 255
  Alphabet = {0, 34, 59, 97, 46, 92, 61, 128, 195, 169, 255}
  L = 4
INVARIANT RefOK
INVARIANT Emit
CHECK_DEADLOCK FALSE
