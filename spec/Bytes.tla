-------------------------------- MODULE Bytes --------------------------------
(* Byte-level helpers: UTF-8 well-formedness (RFC 3629 / Unicode Table 3-7),   *)
(* the encoder from code points to UTF-8, concatenation.                       *)
EXTENDS Naturals, Integers, Sequences

Cont(b, i) == i <= Len(b) /\ b[i] \in 128 .. 191
In(b, i, lo, hi) == i <= Len(b) /\ b[i] \in lo .. hi

RECURSIVE U8From(_, _)
U8From(b, i) ==
  IF i > Len(b) THEN TRUE
  ELSE LET c == b[i] IN
    IF c < 128 THEN U8From(b, i + 1)
    ELSE IF c \in 194 .. 223 THEN Cont(b, i + 1) /\ U8From(b, i + 2)
    ELSE IF c = 224 THEN In(b, i + 1, 160, 191) /\ Cont(b, i + 2) /\ U8From(b, i + 3)
    ELSE IF c \in 225 .. 236 \/ c \in 238 .. 239 THEN Cont(b, i + 1) /\ Cont(b, i + 2) /\ U8From(b, i + 3)
    ELSE IF c = 237 THEN In(b, i + 1, 128, 159) /\ Cont(b, i + 2) /\ U8From(b, i + 3)
    ELSE IF c = 240 THEN In(b, i + 1, 144, 191) /\ Cont(b, i + 2) /\ Cont(b, i + 3) /\ U8From(b, i + 4)
    ELSE IF c \in 241 .. 243 THEN Cont(b, i + 1) /\ Cont(b, i + 2) /\ Cont(b, i + 3) /\ U8From(b, i + 4)
    ELSE IF c = 244 THEN In(b, i + 1, 128, 143) /\ Cont(b, i + 2) /\ Cont(b, i + 3) /\ U8From(b, i + 4)
    ELSE FALSE

Utf8Ok(b) == U8From(b, 1)

\* UTF-8 encoding of one code point (a scalar value: not a surrogate, <= 0x10FFFF)
Utf8Of(cp) ==
  IF cp < 128 THEN <<cp>>
  ELSE IF cp < 2048 THEN <<192 + cp \div 64, 128 + (cp % 64)>>
  ELSE IF cp < 65536 THEN <<224 + cp \div 4096, 128 + ((cp \div 64) % 64), 128 + (cp % 64)>>
  ELSE <<240 + cp \div 262144, 128 + ((cp \div 4096) % 64), 128 + ((cp \div 64) % 64), 128 + (cp % 64)>>

RECURSIVE Utf8OfSeq(_)
Utf8OfSeq(cps) == IF cps = <<>> THEN <<>> ELSE Utf8Of(Head(cps)) \o Utf8OfSeq(Tail(cps))

RECURSIVE Concat(_)
Concat(ss) == IF ss = <<>> THEN <<>> ELSE Head(ss) \o Concat(Tail(ss))
=============================================================================
