------------------------------- MODULE Trace -------------------------------
(***************************************************************************)
(* The trace specification: every event recorded from the real crates must  *)
(* be a step this specification allows.  One action per event kind; each    *)
(* action binds the logged fields and evaluates the property rules of       *)
(* DESIGN.md Appendix B against the Ref layer.                              *)
(***************************************************************************)
EXTENDS TraceBase, Compress, Txt, Values, Store, Mdns, Builder, Resolver

VARIABLES l,         \* index of the next event to consume
          st         \* abstract state carried through a session (store / mDNS events): see Reset
vars == <<l, st>>

Ev == Rec[l]

-----------------------------------------------------------------------------
(* C08: one event = 256 consecutive flag words w0 .. w0+255.                 *)
(* e.p[i] = parse result of a 12-byte-header message with that word:         *)
(*   <<"err">> or <<"ok", id, flagmask, opcode, rcode, qd, an, ns, ar>>      *)
(* e.k[i] = the eight peek results <<id, qd, an, ns, ar, flagmask, rcode,    *)
(*   opcode>> (-2 = the peek function returned an error / panicked)          *)
(* e.r[i] = flags word re-serialised from the parsed packet (-2 if n/a)      *)

HdrWordOK(e, i) ==
  LET w == e.w0 + i - 1
      p == e.p[i]
      k == e.k[i]
      mask == MaskOf(HdrFlagSet(w))
      oop == Obs(HdrOpcode(w), NamedOpcodes)
      orc == Obs(HdrRcode(w), NamedRcodes4)
  IN /\ IF HdrZ(w) THEN p[1] = "err"
        ELSE /\ p[1] = "ok"
             /\ p[2] = e.id /\ p[3] = mask /\ p[4] = oop /\ p[5] = orc
             /\ <<p[6], p[7], p[8], p[9]>> = e.counts
     /\ k = <<e.id, e.counts[1], e.counts[2], e.counts[3], e.counts[4], mask, orc, oop>>
     /\ (~HdrZ(w) /\ oop # -1 /\ orc # -1) => e.r[i] = w

\* C11 at the header: what a second parse of the re-serialised header observes equals the first
HdrReparseOK(e, i) ==
  LET w == e.w0 + i - 1
      r == e.r[i] IN
  (~HdrZ(w)) => /\ r >= 0
                /\ HdrFlagSet(r) = HdrFlagSet(w) /\ ~HdrZ(r)
                /\ Obs(HdrOpcode(r), NamedOpcodes) = Obs(HdrOpcode(w), NamedOpcodes)
                /\ Obs(HdrRcode(r), NamedRcodes4) = Obs(HdrRcode(w), NamedRcodes4)

TraceHdrWords ==
  /\ Ev.ev = "HdrWords"
  /\ Len(Ev.p) = Ev.n /\ Len(Ev.k) = Ev.n /\ Len(Ev.r) = Ev.n
  /\ \A i \in 1 .. Ev.n :
       /\ Rule(l, "HdrFields", HdrWordOK(Ev, i), <<"w", Ev.w0 + i - 1>>)
       /\ Rule(l, "HdrReparse", HdrReparseOK(Ev, i),
               <<"header-rcode", HdrRcode(Ev.w0 + i - 1), "header-opcode", HdrOpcode(Ev.w0 + i - 1), "re-emitted-word", Ev.r[i]>>)

(* build side: e.c[i] = <<ctor, flagmask, opcode, rcode, word written>> *)
HdrBuildOK(c) ==
  LET fs0 == IF c[1] = "reply" THEN {"qr"} ELSE {}
      fs == fs0 \cup {n \in FlagNames : Bit(c[2], FlagBit(n))}
  IN /\ c[5] = FlagWord(fs, c[3], c[4])
     \* the same word (after id 7, in a header of exactly 12 bytes) through write_to into writers that take one
     \* byte / five bytes per write() call
     /\ c[6] = FlagWord(fs, c[3], c[4]) /\ c[7] = FlagWord(fs, c[3], c[4])

TraceHdrBuilds ==
  /\ Ev.ev = "HdrBuilds"
  /\ \A i \in 1 .. Len(Ev.c) :
       Rule(l, "HdrFields", HdrBuildOK(Ev.c[i]), <<"build", Ev.c[i]>>)

(* flag algebra: e.a = start mask; e.ops[i] = <<b, afterSet, afterRemove, has, peekHas, parsedHas>> *)
FlagOpOK(a, o) ==
  LET A == HdrFlagSet(a)
      Bs == HdrFlagSet(o[1])
  IN /\ o[2] = MaskOf(FlagsSet(A, Bs))
     /\ o[3] = MaskOf(FlagsRemove(A, Bs))
     /\ o[4] = FlagsHas(A, Bs)
     \* has_flags means "all of them", for the packet, for the peek on its serialised header and for the packet
     \* parsed back from it (flag sets of any size, the empty one included)
     /\ o[5] = FlagsHas(A, Bs) /\ o[6] = FlagsHas(A, Bs)

TraceFlagOps ==
  /\ Ev.ev = "FlagOps"
  /\ \A i \in 1 .. Len(Ev.ops) :
       Rule(l, "FlagAlgebra", FlagOpOK(Ev.a, Ev.ops[i]), <<"a", Ev.a, "op", Ev.ops[i]>>)

-----------------------------------------------------------------------------
(* C18: code conversions.  One event = 256 consecutive codes c0 .. c0+255;   *)
(* e.r[i] = <<typeBack, typeNamed, classBack, qtypeBack, qclassBack>> where  *)
(* xBack = the u16 obtained by converting back, or -1 if conversion failed.  *)
\* (a crate that learns further types or classes keeps the property: the tables are lower bounds)
CodeConvOK(c, r) ==
  /\ r[1] = c                                                      \* TYPE round trip, every code
  /\ (c \in SupportedTypes) => r[2]                                \* every type of the table is named
  /\ r[3] \in {-1, c} /\ (c \in SupportedClasses => r[3] = c)        \* no aliasing; table classes accepted
  /\ r[4] \in {-1, c} /\ (QTypeSupported(c) => r[4] = c)
  /\ ((~r[2]) /\ c \notin QTypeSpecials) => r[4] = -1                \* an unnamed type is not a question type
  /\ r[5] \in {-1, c} /\ (QClassSupported(c) => r[5] = c)
  /\ (r[3] = -1 /\ c # QClassAny) => r[5] = -1                      \* an unknown class is not a question class

TraceCodeConv ==
  /\ Ev.ev = "CodeConv"
  /\ \A i \in 1 .. Len(Ev.r) :
       Rule(l, "CodeTables", CodeConvOK(Ev.c0 + i - 1, Ev.r[i]), <<"code", Ev.c0 + i - 1, Ev.r[i]>>)

(* the same tables as the parser applies them to a field on the wire: e.field, e.c0 = first value of the block,  *)
(* e.r[i] = -1 (message rejected) | code * 2 + top bit, for the field value e.c0 + i - 1                          *)
WireCodeOK(field, v, r) ==
  CASE field = "qtype" -> r = IF QTypeSupported(v) THEN v * 2 ELSE -1
    [] field = "qclass" -> r = IF QClassSupported(v % 32768) THEN (v % 32768) * 2 + (v \div 32768) ELSE -1
    [] OTHER -> r = IF (v % 32768) \in SupportedClasses THEN (v % 32768) * 2 + (v \div 32768) ELSE -1
TraceWireCodes ==
  /\ Ev.ev = "WireCodes"
  /\ \A i \in 1 .. Len(Ev.r) :
       Rule(l, "CodeTables", WireCodeOK(Ev.field, Ev.c0 + i - 1, Ev.r[i]), <<"wire", Ev.field, Ev.c0 + i - 1, Ev.r[i]>>)

(* mnemonics: e.m = sequence of <<table, name, code>> *)
MnemonicOK(m) ==
  CASE m[1] = "TYPE" -> m[2] \in DOMAIN TypeTable /\ TypeTable[m[2]] = m[3]
    [] m[1] = "QTYPE" -> m[2] \in DOMAIN QTypeTable /\ QTypeTable[m[2]] = m[3]
    [] m[1] = "CLASS" -> m[2] \in DOMAIN ClassTable /\ ClassTable[m[2]] = m[3]
    [] m[1] = "QCLASS" -> m[2] = "ANY" /\ m[3] = 255
    [] OTHER -> FALSE

TraceMnemonics ==
  /\ Ev.ev = "Mnemonics"
  /\ \A i \in 1 .. Len(Ev.m) : Rule(l, "CodeTables", MnemonicOK(Ev.m[i]), Ev.m[i])
  \* every mnemonic of the tables was reported (the crate names all of them)
  /\ Rule(l, "CodeTables",
          DOMAIN TypeTable \subseteq {Ev.m[i][2] : i \in {j \in 1 .. Len(Ev.m) : Ev.m[j][1] = "TYPE"}},
          "type-mnemonic-set")

(* matching: e.t = record type code, e.reported = u16 of the reported type,  *)
(* e.canon = reported type value equals the value the code converts to,     *)
(* e.q[i] = <<qtype code, matched>>                                          *)
TraceMatchType ==
  /\ Ev.ev = "MatchType"
  /\ Rule(l, "MatchMatrix", Ev.reported = Ev.t /\ Ev.canon, <<"reported-type", Ev.t, Ev.how>>)
  /\ \A i \in 1 .. Len(Ev.q) :
       Rule(l, "MatchMatrix",
            MatchDefined(Ev.q[i][1]) => (Ev.q[i][2] = MatchQType(Ev.t, Ev.q[i][1])),
            <<"t", Ev.t, "q", Ev.q[i], Ev.how>>)

(* e.c = class code of the record, e.q[i] = <<qclass code, matched>> *)
TraceMatchClass ==
  /\ Ev.ev = "MatchClass"
  /\ \A i \in 1 .. Len(Ev.q) :
       Rule(l, "MatchMatrix", Len(Ev.q[i]) = 2 /\ Ev.q[i][2] = MatchQClass(Ev.c, Ev.q[i][1]), <<"class", Ev.c, Ev.q[i], Ev.how>>)

-----------------------------------------------------------------------------
(* C06: one event = one buffer e.b, decoded by the crate at each start offset *)
(* e.at[i]; e.r[i] = <<"ok", labels, next>> | <<"err">> | <<"panic", where>>  *)
NameDecodeOK(b, at, r) ==
  LET ref == RefDecodeName(b, at) IN
  /\ r[1] = "ok" => /\ ref.ok /\ r[2] = ref.labels /\ r[3] = ref.next
                     /\ ValidLabels(r[2])

NameMustErrOK(b, at, r) == (~RefDecodeName(b, at).ok) => r[1] = "err"

TraceNameDecode ==
  /\ Ev.ev = "NameDecode"
  /\ Len(Ev.at) = Len(Ev.r)
  /\ \A i \in 1 .. Len(Ev.at) :
       /\ Rule(l, "NameNoPanic", Ev.r[i][1] # "panic", <<"parse_name", Ev.at[i], Ev.r[i]>>)
       /\ Rule(l, "NameRef", NameDecodeOK(Ev.b, Ev.at[i], Ev.r[i]),
               <<"at", Ev.at[i], "got", Ev.r[i], "ref", RefDecodeName(Ev.b, Ev.at[i])>>)
       /\ Rule(l, "NameMustErr", NameMustErrOK(Ev.b, Ev.at[i], Ev.r[i]),
               <<"at", Ev.at[i], "got", Ev.r[i][1], "ref", RefDecodeName(Ev.b, Ev.at[i]).why>>)

-----------------------------------------------------------------------------
(* C17: Name::new on text e.s (code points).                                  *)
(* e.out = <<"ok", labels, display code points, recreated-equal>> | <<"err">> *)
TraceNameNew ==
  /\ Ev.ev = "NameNew"
  /\ Rule(l, "NoPanic", Ev.out[1] # "panic", <<"Name::new", Ev.s>>)
  /\ Rule(l, "NameGrammar", (Ev.out[1] = "ok") = TextAccept(Ev.s), <<"accept", Ev.s, Ev.out[1]>>)
  /\ Rule(l, "NameGrammar", Ev.out[1] = "ok" => Ev.out[2] = SplitLabels(Ev.s), <<"labels", Ev.s>>)
  /\ Rule(l, "NameDisplay",
          Ev.out[1] = "ok" => (Ev.out[3] = DisplayText(SplitLabels(Ev.s)) /\ Ev.out[4] = TRUE),
          <<"display", Ev.s, Ev.out>>)

(* Label::new on bytes e.b: e.ok *)
TraceLabelNew ==
  /\ Ev.ev = "LabelNew"
  /\ Rule(l, "NameGrammar", Ev.ok = TextLabelOK(Ev.b), <<"label", Ev.b, Ev.ok>>)

(* relations between two names given as label sequences *)
TraceNameRel ==
  /\ Ev.ev = "NameRel"
  /\ Rule(l, "SuffixAlgebra", Ev.sub = IsSubdomainOf(Ev.x, Ev.y), <<"is_subdomain_of", Ev.x, Ev.y, Ev.sub>>)
  /\ Rule(l, "SuffixAlgebra",
          IF IsSubdomainOf(Ev.x, Ev.y) THEN Ev.without = <<"some", Without(Ev.x, Ev.y)>>
          ELSE Ev.without = <<"none">>,
          <<"without", Ev.x, Ev.y, Ev.without>>)
  /\ Rule(l, "SuffixAlgebra", Ev.ll = IsLinkLocal(Ev.x), <<"is_link_local", Ev.x, Ev.ll>>)

-----------------------------------------------------------------------------
(* Parse: the crate parsed the byte string e.b.                               *)
(*   e.out = <<"ok", pkt>> | <<"err", kind>> | <<"panic", where>>             *)
(*   e.steps = loop iterations counted by the work-counter hook               *)
(*   e.peak  = peak heap bytes requested during the call                      *)
FirstDiff(x, y) ==
  IF \E i \in 1 .. Len(x) : i > Len(y) \/ x[i] # y[i]
  THEN CHOOSE i \in 1 .. Len(x) : (i > Len(y) \/ x[i] # y[i]) /\ \A j \in 1 .. i - 1 : j <= Len(y) /\ x[j] = y[j]
  ELSE Len(x) + 1

PktDiff(p, q) ==
  IF DOMAIN p # DOMAIN q THEN "fields"
  ELSE IF \E k \in DOMAIN p : p[k] # q[k] THEN CHOOSE k \in DOMAIN p : p[k] # q[k] ELSE "none"

\* the domain of values the crate can represent: must-accept obligations are limited to it
InCrateDomain(ref) ==
  /\ Encodable([ref.pkt EXCEPT !.opcode = IF @ = -1 THEN 0 ELSE @, !.rcode = IF @ = -1 THEN 0 ELSE @])
  /\ Cardinality({i \in 1 .. Len(ref.raw.ar) : ref.raw.ar[i].type = 41}) <= 1
  /\ \A s \in {ref.raw.an, ref.raw.ns} : \A i \in 1 .. Len(s) : s[i].type # 41

\* resource bounds of C01 (DESIGN.md section 5, C01): linear in the input length
StepBound(n) == 64 * n + 1024
HeapBoundOf(n) == 1024 * n + 65536

\* C06, "parsing of the enclosing element resumes immediately after the name's in-place bytes": the fields of
\* a record that FOLLOW a name in its RDATA schema come out as the reference decoder reads them (on messages with
\* surplus RDATA, pointers in RDATA, ...): a wrong resume position shows there, whatever the names themselves say
AfterNameOK(c, r) ==
  IF r.rd = <<>> \/ r.type = 41 THEN TRUE
  ELSE LET sc == Schema(r.type)
           \* (the gateway of an IPSECKEY record is a name when the gateway type says so)
           ks == {i \in 1 .. Len(sc) : sc[i].t = "N" \/ (sc[i].t = "GW" /\ Len(r.rd) >= 2 /\ r.rd[2] = <<3>>)} IN
       IF ks = {} THEN TRUE
       ELSE LET k == CHOOSE i \in ks : \A j \in ks : i <= j IN
            Len(c.rd) = Len(r.rd) /\ \A j \in (k + 1) .. Len(r.rd) : c.rd[j] = r.rd[j]
AfterNameAll(cs, rs) == Len(cs) = Len(rs) => \A i \in 1 .. Len(rs) : AfterNameOK(cs[i], rs[i])

NameWhyBase == {"truncated", "pointer-outside", "cycle", "reserved-label-type", "label-too-long", "name-too-long"}
NameWhys == {sec \o mid \o w : sec \in {"qd:", "an:", "ns:", "ar:"}, mid \in {"name:", "rdata:name:"}, w \in NameWhyBase}

TraceParse ==
  /\ Ev.ev = "Parse"
  /\ LET b == Ev.b
         out == Ev.out
         ref == RefDecode(b) IN
     /\ Rule(l, "NoPanic", out[1] # "panic", <<"Packet::parse", out>>)
     /\ Rule(l, "NoHang", out[1] # "hang" /\ Ev.steps <= StepBound(Len(b)), <<"steps", Ev.steps, "len", Len(b), out[1]>>)
     /\ Rule(l, "HeapBound", Ev.peak <= HeapBoundOf(Len(b)), <<"peak", Ev.peak, "len", Len(b)>>)
     /\ Rule(l, "EnvelopeErr", (~ref.ok) => out[1] = "err", <<"ref", ref.why, "got", out[1]>>)
     \* C06 at the level of the enclosing message: a name the RFC decoder refuses (cycle, pointer outside the
     \* message, reserved label type, over-long, cut short) makes the message an error -- it is never skipped
     /\ Rule(l, "NameMustErr", (~ref.ok /\ ref.why \in NameWhys) => out[1] = "err",
             <<"message-with-invalid-name-accepted", ref.why, "got", out[1]>>)
     /\ Rule(l, "ParseEqRef", out[1] = "ok" => (ref.ok /\ out[2] = ref.pkt),
             <<"ref", IF ref.ok THEN PktDiff(out[2], ref.pkt) ELSE ref.why>>)
     /\ Rule(l, "MustAccept",
             (ref.ok /\ ref.exact /\ ref.end = Len(b) /\ InCrateDomain(ref) /\ PlainReencode(b, ref) = b)
               => out[1] = "ok",
             <<"canonical-plain-message-rejected", out>>)
     /\ Rule(l, "AfterName",
             (out[1] = "ok" /\ ref.ok /\ Len(out[2].ar) = Len(ref.pkt.ar))
               => (AfterNameAll(out[2].an, ref.pkt.an) /\ AfterNameAll(out[2].ns, ref.pkt.ns) /\ AfterNameAll(out[2].ar, ref.pkt.ar)),
             <<"fields-after-a-name-differ-from-reference", IF ref.ok /\ out[1] = "ok" THEN PktDiff(out[2], ref.pkt) ELSE "-">>)
     \* C05, observed at the entry loop itself (hook at the top of Question::parse / ResourceRecord::parse):
     \* every entry the parser starts on begins where the envelope walker says an entry begins -- never in
     \* the middle of the previous record, whatever the outcome of the parse
     /\ IF "starts" \in DOMAIN Ev THEN
          LET es == EnvelopeStarts(b) IN
          Rule(l, "EntryAligned",
               Len(Ev.starts) <= Len(es) /\ \A i \in 1 .. Len(Ev.starts) : i <= Len(es) => Ev.starts[i] = es[i],
               <<"entries-started-at", Ev.starts, "envelope", es>>)
        ELSE TRUE
     \* C06 ("parsing of the enclosing element resumes immediately after the name's in-place bytes"), observed
     \* at Name::parse itself (hook at its top): on a message the reference decoder accepts, the names the
     \* parser starts on begin, in order, exactly where the schema-aware site walker finds the message's names
     /\ IF "nstarts" \in DOMAIN Ev /\ ref.ok THEN
          LET ss == Sites(b) IN
          Rule(l, "NameSiteAligned",
               Len(Ev.nstarts) <= Len(ss) /\ \A i \in 1 .. Len(Ev.nstarts) : i <= Len(ss) => Ev.nstarts[i] = ss[i].pos,
               <<"names-started-at", Ev.nstarts, "sites", [i \in 1 .. Len(ss) |-> ss[i].pos]>>)
        ELSE TRUE

(* RoundTrip: a packet e.pkt assembled through the public constructors was     *)
(* serialised plain (e.plain) and compressed (e.comp) and both were parsed     *)
(* back (e.pp, e.pc).  outs: <<"ok", bytes>> / <<"ok", pkt>> / <<"err", k>> /  *)
(* <<"panic", where>>                                                          *)
TraceRoundTrip ==
  /\ Ev.ev = "RoundTrip"
  /\ LET p == Ev.pkt
         canon == RefEncodePlain(p)
         plainOk == Ev.plain[1] = "ok"
         compOk == Ev.comp[1] = "ok"
         dc == IF compOk THEN RefDecode(Ev.comp[2]) ELSE MErr("n/a") IN
     /\ Encodable(p)
     /\ Rule(l, "NoPanic", "panic" \notin {Ev.plain[1], Ev.comp[1], Ev.pp[1], Ev.pc[1]}, <<"roundtrip", Ev.plain[1], Ev.comp[1], Ev.pp[1], Ev.pc[1]>>)
     /\ Rule(l, "BuildOk", plainOk /\ compOk, <<Ev.plain[1], Ev.comp[1]>>)
     \* C08 on whatever API history led to this packet: id and flags word at the RFC bit positions
     /\ Rule(l, "HdrFields",
             \A o \in {Ev.plain[2], Ev.comp[2]} \cap (IF plainOk /\ compOk THEN {Ev.plain[2], Ev.comp[2]} ELSE {}) :
                SubSeq(o, 1, 4) = BE16(p.id) \o BE16(FlagWord({n \in FlagNames : Bit(p.fs, FlagBit(n))}, p.opcode, p.rcode % 16)),
             <<"header-written", IF plainOk THEN SubSeq(Ev.plain[2], 1, 4) ELSE <<>>, "id", p.id, "fs", p.fs, "opcode", p.opcode, "rcode", p.rcode>>)
     \* the plain output is an uncompressed, exactly framed message (every record re-encodes byte for byte with the
     \* reference encoder, RDLENGTHs exact, nothing after the last entry) that decodes to the packet.  The order
     \* of the OPT pseudo-record among the additional records is left free; everything else is byte-exact.
     /\ LET dp == IF plainOk THEN RefDecode(Ev.plain[2]) ELSE MErr("n/a") IN
        Rule(l, "PlainCanonical",
             plainOk => (/\ dp.ok /\ dp.exact /\ dp.end = Len(Ev.plain[2]) /\ dp.pkt = p
                         /\ PlainReencode(Ev.plain[2], dp) = Ev.plain[2]
                         /\ Len(Ev.plain[2]) = Len(canon)),
             <<"first-diff-vs-reference-at", IF plainOk THEN FirstDiff(canon, Ev.plain[2]) ELSE 0, "canon-len", Len(canon),
               "ref-decode", IF dp.ok THEN PktDiff(dp.pkt, p) ELSE dp.why>>)
     \* the same bytes through write_to into a writer that takes one byte per write() call (a Write sink may accept
     \* less than it is offered: the serialisers must loop)
     /\ Rule(l, "ChunkSame", (plainOk /\ "chunk" \in DOMAIN Ev) => (Ev.chunk[1] = "ok" /\ Ev.chunk[2] = Ev.plain[2]),
             <<"one-byte-writer", IF "chunk" \in DOMAIN Ev THEN Ev.chunk[1] ELSE "-",
               "first-diff", IF plainOk /\ "chunk" \in DOMAIN Ev /\ Ev.chunk[1] = "ok" THEN FirstDiff(Ev.plain[2], Ev.chunk[2]) ELSE 0>>)
     /\ Rule(l, "RoundTrip", plainOk => (Ev.pp[1] = "ok" /\ Ev.pp[2] = p),
             <<"plain", Ev.pp[1], IF Ev.pp[1] = "ok" THEN PktDiff(Ev.pp[2], p) ELSE "-">>)
     /\ Rule(l, "CompDecodes", compOk => (dc.ok /\ dc.exact /\ dc.end = Len(Ev.comp[2]) /\ dc.pkt = p),
             <<"ref-decode-of-compressed", IF dc.ok THEN PktDiff(dc.pkt, p) ELSE dc.why>>)
     \* C09 through the compressing serialiser as well: the OPT pseudo-record arrives as EDNS data of the message
     \* (in the additional section, upper rcode bits in its TTL), whatever else the message holds
     /\ Rule(l, "CompOpt", (compOk /\ p.opt # <<>>) => (dc.ok /\ dc.pkt.opt = p.opt /\ dc.pkt.rcode = p.rcode),
             <<"edns-after-compressed-serialisation", IF dc.ok THEN <<dc.pkt.opt, dc.pkt.rcode>> ELSE dc.why>>)
     /\ Rule(l, "CompShorter", (plainOk /\ compOk) => Len(Ev.comp[2]) <= Len(Ev.plain[2]),
             <<"comp", IF compOk THEN Len(Ev.comp[2]) ELSE 0, "plain", IF plainOk THEN Len(Ev.plain[2]) ELSE 0>>)
     /\ Rule(l, "CompRoundTrip", compOk => (Ev.pc[1] = "ok" /\ Ev.pc[2] = p),
             <<"comp", Ev.pc[1], IF Ev.pc[1] = "ok" THEN PktDiff(Ev.pc[2], p) ELSE "-">>)
     \* C07: every name site of the compressed output, located by the schema-aware walker
     /\ LET ss == IF compOk /\ dc.ok THEN Sites(Ev.comp[2]) ELSE <<>> IN
        \A k \in 1 .. Len(ss) :
          /\ Rule(l, "PtrValid", PtrValid(ss, k), <<"site", ss[k].pos, "ptr", ss[k].ptr, "cls", ss[k].cls>>)
          /\ Rule(l, "PtrForbidden", PtrForbidden(ss, k), <<"site", ss[k].pos, "ptr", ss[k].ptr>>)
          /\ Rule(l, "PtrRequired", PtrRequired(ss, k), <<"site", ss[k].pos, "labels", ss[k].labels>>)

(* Peek: the eight header_buffer functions on buffer e.b;                      *)
(* e.r[i] = <<"ok", v>> | <<"err">> | <<"panic", where>> for id, questions,    *)
(* answers, name_servers, additional_records, flags (mask), rcode, opcode      *)
PeekNeed == <<2, 6, 8, 10, 12, 4, 4, 4>>
PeekExpected(b, i) ==
  CASE i = 1 -> U16At(b, 1) [] i = 2 -> U16At(b, 5) [] i = 3 -> U16At(b, 7) [] i = 4 -> U16At(b, 9)
    [] i = 5 -> U16At(b, 11) [] i = 6 -> MaskOf(HdrFlagSet(U16At(b, 3)))
    [] i = 7 -> Obs(HdrRcode(U16At(b, 3)), NamedRcodes4) [] i = 8 -> Obs(HdrOpcode(U16At(b, 3)), NamedOpcodes)

TracePeek ==
  /\ Ev.ev = "Peek"
  /\ Len(Ev.r) = 8
  /\ \A i \in 1 .. 8 :
       /\ Rule(l, "NoPanic", Ev.r[i][1] # "panic", <<"peek", i, "len", Len(Ev.b), Ev.r[i]>>)
       /\ Rule(l, "PeekTotal",
               /\ Ev.r[i][1] = "ok" => (Len(Ev.b) >= PeekNeed[i] /\ Ev.r[i][2] = PeekExpected(Ev.b, i))
               /\ Len(Ev.b) >= 12 => Ev.r[i][1] = "ok",
               <<"peek", i, "len", Len(Ev.b), Ev.r[i]>>)

(* Inspect (C12): observers applied to the parts of a parsed packet.           *)
(* e.obs[i] = <<observer, part, raw bytes (fallible conversions), outcome>>    *)
(* outcome = <<"ok">> | <<"err">> | <<"panic", where>>                         *)
FallibleObservers == {"cstr.string_try_from", "txt.long_attributes", "txt.string_try_from"}

ObserverOK(o) ==
  /\ o[4][1] # "panic"
  /\ IF o[1] \in FallibleObservers THEN (Utf8Ok(o[3]) => o[4][1] = "ok") ELSE o[4][1] = "ok"

TraceInspect ==
  /\ Ev.ev = "Inspect"
  /\ \A i \in 1 .. Len(Ev.obs) :
       Rule(l, "ObserverTotal", ObserverOK(Ev.obs[i]), <<Ev.obs[i][1], Ev.obs[i][2], Ev.obs[i][4], "utf8", Utf8Ok(Ev.obs[i][3])>>)

(* SinkBuild (C04): packet e.pkt written with mode e.mode ("plain"/"comp") into  *)
(* a writer of kind e.kind starting at offset e.start over storage pre-filled     *)
(* with e.prefill (capacity e.cap for fixed writers, -1 for growable ones).       *)
(* e.ref = bytes returned by the vector-returning entry point for the same mode;  *)
(* e.out = <<"ok">>|<<"err", k>>|<<"panic", w>>; e.after = storage afterwards     *)
Fits(e) == e.cap = -1 \/ e.start + Len(e.ref) <= e.cap
TraceSinkBuild ==
  /\ Ev.ev = "SinkBuild"
  /\ LET n == Len(Ev.ref)
         a == Ev.after
         pre == Ev.prefill IN
     /\ Rule(l, "NoPanic", Ev.out[1] # "panic", <<Ev.kind, Ev.mode, "start", Ev.start, "cap", Ev.cap, Ev.out>>)
     /\ Rule(l, "SinkErr", Fits(Ev) = (Ev.out[1] = "ok"), <<Ev.kind, Ev.mode, "start", Ev.start, "cap", Ev.cap, "need", n, Ev.out[1]>>)
     /\ Rule(l, "SinkSame",
             Ev.out[1] = "ok" =>
               /\ Len(a) >= Ev.start + n
               /\ SubSeq(a, Ev.start + 1, Ev.start + n) = Ev.ref                                   \* the message itself
               /\ SubSeq(a, 1, Ev.start) = SubSeq(pre, 1, Ev.start)                               \* nothing before it touched
               /\ SubSeq(a, Ev.start + n + 1, Len(a)) = SubSeq(pre, Ev.start + n + 1, Len(pre)),   \* no other bytes written
             <<Ev.kind, Ev.mode, "start", Ev.start, "cap", Ev.cap, "prefill", Len(pre), "need", n, "after", Len(a),
               "first-diff", IF Ev.out[1] = "ok" /\ Len(a) >= Ev.start + n THEN FirstDiff(Ev.ref, SubSeq(a, Ev.start + 1, Ev.start + n)) ELSE 0>>)

(* C19: TXT conversions.                                                          *)
(* TxtSplit: text e.s (code points) -> TXT::try_from(&str) pieces -> String        *)
(*   e.out = <<"ok", pieces, joined>> | <<"err">>; joined = <<"ok", cps>> | <<"err">> *)
TraceTxtSplit ==
  /\ Ev.ev = "TxtSplit"
  /\ Rule(l, "NoPanic", Ev.out[1] # "panic", <<"TXT::try_from(&str)", Len(Ev.s)>>)
  /\ Rule(l, "TxtPieces", Ev.out[1] = "ok" /\ PiecesOK(Ev.s, Ev.out[2]),
          <<"pieces", Len(Ev.s), Ev.out[1], IF Ev.out[1] = "ok" THEN [i \in 1 .. Len(Ev.out[2]) |-> Len(Ev.out[2][i])] ELSE <<>>>>)
  /\ Rule(l, "TxtJoin", Ev.out[1] = "ok" => Ev.out[3] = <<"ok", Ev.s>>, <<"join", Len(Ev.s)>>)

(* TxtAttrs: attribute map e.m (sequence of <<key cps, value>>) -> TXT -> attributes() *)
(*   e.out = <<"ok", strings, back>> | <<"err">>; back = sequence of <<key cps, value>> *)
SeqSet(q) == {q[i] : i \in 1 .. Len(q)}
TraceTxtAttrs ==
  /\ Ev.ev = "TxtAttrs"
  /\ LET within == \A i \in 1 .. Len(Ev.m) : AttrWithinLimits(Ev.m[i][1], Ev.m[i][2]) IN
     /\ Rule(l, "NoPanic", Ev.out[1] # "panic", <<"TXT::try_from(map)">>)
     /\ Rule(l, "TxtAttrs", within => (Ev.out[1] = "ok" /\ SeqSet(Ev.out[3]) = SeqSet(Ev.m) /\ Len(Ev.out[3]) = Len(Ev.m)),
             <<"map", Ev.m, "back", IF Ev.out[1] = "ok" THEN Ev.out[3] ELSE <<>>>>)
     /\ Rule(l, "CStrLimit", (~within /\ \A i \in 1 .. Len(Ev.m) : Equals \notin SeqSet(Ev.m[i][1])) => Ev.out[1] = "err",
             <<"over-long entry accepted">>)

(* TxtRaw: a TXT made of the raw strings e.strs (valid UTF-8) -> attributes(): e.back (byte keys/values) *)
TraceTxtRaw ==
  /\ Ev.ev = "TxtRaw"
  /\ Rule(l, "TxtAttrs", SeqSet(Ev.back) = AttrsOfStrings(Ev.strs) /\ Len(Ev.back) = Cardinality(AttrsOfStrings(Ev.strs)),
          <<"strings", Ev.strs, "back", Ev.back>>)

(* TxtLong: text e.s -> TXT -> long_attributes(): e.out = <<"ok", pairs>> | <<"err">> *)
TraceTxtLong ==
  /\ Ev.ev = "TxtLong"
  /\ Rule(l, "NoPanic", Ev.out[1] # "panic", <<"long_attributes">>)
  /\ Rule(l, "TxtLong", Ev.out[1] = "ok" /\ SeqSet(Ev.out[2]) = LongAttrs(Ev.s) /\ Len(Ev.out[2]) = Cardinality(LongAttrs(Ev.s)),
          <<"text", Ev.s, "got", IF Ev.out[1] = "ok" THEN Ev.out[2] ELSE <<>>>>)

(* CStrNew: a character-string of e.n bytes constructed via e.via: accepted iff n <= 255 *)
TraceCStrNew ==
  /\ Ev.ev = "CStrNew"
  /\ Rule(l, "CStrLimit", Ev.ok = (Ev.n <= 255), <<Ev.via, Ev.n, Ev.ok>>)
  /\ Rule(l, "CStrLimit", Ev.ok => Ev.wire = Ev.n + 1, <<Ev.via, Ev.n, "wire", Ev.wire>>)

(* ValueCmp (C16): two values of kind e.kind related by e.how                       *)
(*  ("own" / "clone": b derived from a; "parsed-vs-built", "ttl-cf-differs",        *)
(*   "order", "differs": built independently).  e.a / e.b projections,              *)
(*  e.haseq /\ e.eq: result of ==, e.ha / e.hb: 64-bit hashes (bytes) or <<>>,      *)
(*  e.ba / e.bb: serialised bytes                                                    *)
TraceValueCmp ==
  /\ Ev.ev = "ValueCmp"
  /\ Rule(l, "NoPanic", ~Ev.panicked, <<Ev.kind, Ev.how>>)
  /\ Rule(l, "OwnEqual",
          Ev.how \in {"own", "clone"} => (Ev.a = Ev.b /\ Ev.ba = Ev.bb /\ (Ev.haseq => Ev.eq)),
          <<Ev.kind, Ev.how, "proj-equal", Ev.a = Ev.b, "bytes-equal", Ev.ba = Ev.bb, "eq", Ev.eq>>)
  \* (pairs that hold the same members in a different order: what equality says about them is the crate's choice)
  /\ Rule(l, "EqSpec", (Ev.haseq /\ Ev.how # "reordered") => (Ev.eq = SpecEq(Ev.kind, Ev.a, Ev.b)),
          <<Ev.kind, Ev.how, "eq", Ev.eq, "spec", SpecEq(Ev.kind, Ev.a, Ev.b)>>)
  /\ Rule(l, "EqHash", (Ev.haseq /\ Ev.eq /\ Ev.ha # <<>>) => Ev.ha = Ev.hb,
          <<Ev.kind, Ev.how, "equal values hash differently">>)

(* Discover (C15): announcements e.anns crossed the wire (compressed packets) into a   *)
(* discoverer watching e.watched whose own instance is e.own; e.reported is what        *)
(* get_known_services then reports, e.notified what the on_discovery channel delivered  *)
TraceDiscover ==
  /\ Ev.ev = "Discover"
  /\ LET exp == ExpectedInstances(Ev.anns, Ev.watched, Ev.own)
         rep == ReportedSet(Ev.reported) IN
     /\ Rule(l, "NoPanic", ~Ev.panicked, <<"discovery pipeline">>)
     /\ Rule(l, "DiscoverExact", rep = exp /\ Len(Ev.reported) = Cardinality(exp),
             <<"missing", {x.name : x \in exp \ rep}, "unexpected", {x.name : x \in rep \ exp},
               "reported", Len(Ev.reported), "expected", Cardinality(exp)>>)
     /\ Rule(l, "IngestFilter", \A x \in ReportedSet(Ev.notified) : x \in exp,
             <<"notified-but-not-announced", {x.name : x \in ReportedSet(Ev.notified) \ exp}>>)

(* Escape (C15): e.esc = escaped_instance_name(e.s), e.back = unescaped(e.esc) *)
TraceEscape ==
  /\ Ev.ev = "Escape"
  /\ Rule(l, "EscapeInverse", Ev.esc = Escape(Ev.s) /\ Ev.back = Ev.s, <<Ev.s, Ev.esc, Ev.back>>)

(* Datagram (C14): one received datagram handled by the pipeline of e.role          *)
(* ("responder" / "discovery" / "resolver") under a real RwLock.                    *)
(*  e.steps = sequence of <<step, outcome>>, outcome in "ok" "err" "skip" "panic"    *)
(*  e.poisoned: the lock was poisoned afterwards; e.usable: the application could    *)
(*  still read the store; e.reply: bytes sent (<<>> if none); e.reparse: crate's     *)
(*  verdict on its own reply                                                         *)
TraceDatagram ==
  /\ Ev.ev = "Datagram"
  /\ Rule(l, "LoopAlive", \A i \in 1 .. Len(Ev.steps) : Ev.steps[i][2] # "panic",
          <<Ev.role, "len", Len(Ev.b), Ev.steps>>)
  /\ Rule(l, "LockClean", ~Ev.poisoned /\ Ev.usable, <<Ev.role, "poisoned", Ev.poisoned, "usable", Ev.usable>>)
  /\ Rule(l, "ReplyParses", Ev.reply # <<>> => (Ev.reparse = "ok" /\ RefDecode(Ev.reply).ok),
          <<Ev.role, "reply-len", Len(Ev.reply), Ev.reparse>>)

(* NetRun (C14, sampled on real sockets): e.sent datagrams were multicast to a running         *)
(* SimpleMdnsResponder and ServiceDiscovery; e.panics = panics observed on library threads;   *)
(* e.usable = the application could still call get_known_services ("yes"/"no"/"inconclusive")  *)
(* E2EForeign (C20, C15): a peer of another implementation (played on a plain socket) announces an instance to a  *)
(* real ServiceDiscovery and withdraws it; its responses carry a question section (every goodbye, every other     *)
(* announcement).  e.attempts[i] = [ann_q, bye, seen, gone, panic]                                                *)
TraceE2EForeign ==
  /\ Ev.ev = "E2EForeign"
  /\ LET A == Ev.attempts
         seen == {i \in 1 .. Len(A) : A[i].seen} IN
     /\ Rule(l, "NoPanic", \A i \in 1 .. Len(A) : A[i].panic = "", <<"get_known_services panicked", Ev.flavour>>)
     \* every announcement that was listed is withdrawn by its goodbye within 2.3 s (expiry: at once for TTL 0, one
     \* second for the cache-flush bit); timing: one attempt that was listed and then gone is enough
     /\ Rule(l, "E2EGoodbye", seen = {} \/ \E i \in seen : A[i].gone,
             <<"listed-but-never-withdrawn", Ev.flavour, [i \in 1 .. Len(A) |-> <<A[i].ann_q, A[i].bye, A[i].seen, A[i].gone>>]>>)
     \* and an announcement is listed whether or not it repeats a question (when the plain ones are)
     /\ Rule(l, "E2EDiscovered",
             (\E i \in seen : ~A[i].ann_q) => (\E i \in seen : A[i].ann_q),
             <<"announcement-with-question-section-ignored", Ev.flavour>>)

TraceNetRun ==
  /\ Ev.ev = "NetRun"
  /\ Rule(l, "LoopAlive", Ev.panics = <<>>, <<"panic on a library thread", Ev.panics>>)
  \* "no" = answered before the hostile datagrams, silent after them, while a fresh control responder answers
  /\ Rule(l, "LoopAlive", Ev.answered # "no" /\ Ev.answered_discovery # "no"
                           /\ Ev.answered_async # "no" /\ Ev.answered_async_discovery # "no",
          <<"receive loop stopped answering", "responder", Ev.answered, "discovery", Ev.answered_discovery,
            "async responder", Ev.answered_async, "async discovery", Ev.answered_async_discovery>>)
  /\ Rule(l, "LockClean", Ev.usable # "no" /\ Ev.async_usable # "no", <<"store unusable after hostile traffic">>)
  \* the one-shot resolver resolving a name while the hostile datagrams arrive: any outcome but a panic
  /\ Rule(l, "LoopAlive", \A i \in 1 .. Len(Ev.resolver) : Ev.resolver[i][1] # "panic",
          <<"one-shot resolver panicked", Ev.resolver>>)
  \* every reply the real services put on the wire for a probe (ordinary ones and the deliberately big ones: a
  \* question repeated until the reply exceeds 9000 bytes) is a parseable message: <<probe id, length, parses>>
  /\ Rule(l, "ReplyParses", \A i \in 1 .. Len(Ev.replies) : Ev.replies[i][3],
          <<"reply on the wire does not parse", [i \in 1 .. Len(Ev.replies) |-> <<Ev.replies[i][1], Ev.replies[i][2], Ev.replies[i][3]>>]>>)

(* SvcbApi (C10): the typed SvcParam setters of SVCB / HTTPS (RFC 9460 section 7, 14.3.2).          *)
(* e.ops = the calls, e.params = iter_params() afterwards, e.getters = get_param(k) for some keys,   *)
(* e.wire = the one-record message built from the record                                             *)
SvcIdent(x) == x
SvcAlpnId(x) == <<Len(x)>> \o x
SvcSet(o) ==
  CASE o[1] = "mandatory" -> <<0, CatMap(BE16, o[2])>>              \* key 0: the listed keys, 2 bytes each
    [] o[1] = "alpn" -> <<1, CatMap(SvcAlpnId, o[2])>>             \* key 1: length-prefixed protocol ids
    [] o[1] = "no-default-alpn" -> <<2, <<>>>>                      \* key 2: empty value
    [] o[1] = "port" -> <<3, BE16(o[2])>>                           \* key 3: 2 bytes, network order
    [] o[1] = "ipv4hint" -> <<4, CatMap(SvcIdent, o[2])>>           \* key 4: 4-byte addresses
    [] o[1] = "ipv6hint" -> <<6, CatMap(SvcIdent, o[2])>>           \* key 6: 16-byte addresses
    [] OTHER -> <<o[2], o[3]>>                                      \* set_param(key, value)
RECURSIVE SvcSorted(_)
SvcSorted(K) == IF K = {} THEN <<>> ELSE LET m == CHOOSE x \in K : \A y \in K : x <= y IN <<m>> \o SvcSorted(K \ {m})
SvcParams(ops) ==
  LET kv == [i \in 1 .. Len(ops) |-> SvcSet(ops[i])]
      keys == {kv[i][1] : i \in 1 .. Len(ops)}
      lastOf(k) == CHOOSE i \in 1 .. Len(ops) : kv[i][1] = k /\ \A j \in (i + 1) .. Len(ops) : kv[j][1] # k
      sorted == SvcSorted(keys) IN
  [j \in 1 .. Len(sorted) |-> <<sorted[j], kv[lastOf(sorted[j])][2]>>]

TraceSvcbApi ==
  /\ Ev.ev = "SvcbApi"
  /\ LET want == SvcParams(Ev.ops)
         d == IF Ev.wire[1] = "ok" THEN RefDecode(Ev.wire[2]) ELSE MErr("n/a") IN
     /\ Rule(l, "NoPanic", Ev.wire[1] # "panic", <<"svcb setters", Ev.wire>>)
     /\ Rule(l, "SvcbSetters", Ev.wire[1] = "ok" /\ \A i \in 1 .. Len(Ev.res) : Ev.res[i] = "ok", <<"setter refused", Ev.res, Ev.wire[1]>>)
     \* the parameter list: one entry per key, the last call for a key wins, ascending key order
     /\ Rule(l, "SvcbSetters", Ev.wire[1] # "panic" => Ev.params = want, <<"params", Ev.params, "expected", want>>)
     /\ Rule(l, "SvcbSetters",
             \A i \in 1 .. Len(Ev.getters) :
                LET g == Ev.getters[i]
                    hit == {j \in 1 .. Len(want) : want[j][1] = g[1]} IN
                IF hit = {} THEN g[2] = "none" ELSE g[2] = "some" /\ g[3] = want[CHOOSE j \in hit : TRUE][2],
             <<"get_param", Ev.getters>>)
     \* and on the wire: the record of the built message carries exactly these parameters (reference decoder)
     /\ Rule(l, "SvcbSetters",
             Ev.wire[1] = "ok" => (d.ok /\ d.exact /\ Len(d.pkt.an) = 1 /\ d.pkt.an[1].type = Ev.t
                                   /\ d.pkt.an[1].rd[1] = BE16(Ev.prio) /\ d.pkt.an[1].rd[3] = want),
             <<"wire", IF d.ok THEN d.pkt.an ELSE d.why>>)

(* E2E (C15, C20; sampled on real sockets): 2-3 real ServiceDiscovery peers of flavour e.flavour advertise   *)
(* e.peers on the loopback multicast group; e.attempts[a] is a timeline of <<ms, "start", i, _>>,            *)
(* <<ms, "snap", i, get_known_services()>>, <<ms, "remove", i, _>> (peer indices from 0).  The invariants of  *)
(* the protocol model (Discovery.tla) are evaluated on the observed views: NeverPartial / NothingForeign at    *)
(* every observation; Prompt, Stable and GoodbyeHonoured -- which presume an undisturbed network and a        *)
(* scheduler that runs the library's threads within the margins -- must hold in at least one attempt.         *)
E2EStart(tl, j) == LET ks == {k \in 1 .. Len(tl) : tl[k][2] = "start" /\ tl[k][3] = j} IN
                   IF ks = {} THEN -1 ELSE tl[CHOOSE k \in ks : TRUE][1]
E2ERemoved(tl) == LET ks == {k \in 1 .. Len(tl) : tl[k][2] = "remove"} IN IF ks = {} THEN -1 ELSE tl[CHOOSE k \in ks : TRUE][1]
E2ELastStart(tl) == LET ts == {tl[k][1] : k \in {k \in 1 .. Len(tl) : tl[k][2] = "start"}} IN
                    IF ts = {} THEN 0 ELSE CHOOSE t \in ts : \A u \in ts : u <= t
E2ESnaps(tl) == {k \in 1 .. Len(tl) : tl[k][2] = "snap"}

TraceE2E ==
  /\ Ev.ev = "E2E"
  /\ LET P == [j \in 1 .. Len(Ev.peers) |-> CHOOSE x \in ReportedSet(<<Ev.peers[j]>>) : TRUE]
         n == Len(Ev.peers)
         gone == Ev.remove
         Exact(tl) == \A k \in E2ESnaps(tl) :
                        LET rep == ReportedSet(tl[k][4]) IN
                        /\ Len(tl[k][4]) = Cardinality(rep)
                        /\ \A x \in rep : \E j \in 0 .. n - 1 :
                              j # tl[k][3] /\ E2EStart(tl, j) >= 0 /\ E2EStart(tl, j) <= tl[k][1] /\ x = P[j + 1]
         Prompt(tl) == \A k \in E2ESnaps(tl) :
                        (tl[k][1] >= E2ELastStart(tl) + 2000 /\ (E2ERemoved(tl) < 0 \/ tl[k][1] < E2ERemoved(tl)))
                          => \A j \in 0 .. n - 1 : j # tl[k][3] => P[j + 1] \in ReportedSet(tl[k][4])
         Stable(tl) == \A k \in E2ESnaps(tl) :
                        (E2ERemoved(tl) >= 0 /\ tl[k][1] >= E2ERemoved(tl) /\ tl[k][3] # gone)
                          => \A j \in 0 .. n - 1 : (j # tl[k][3] /\ j # gone) => P[j + 1] \in ReportedSet(tl[k][4])
         Goodbye(tl) == \A k \in E2ESnaps(tl) :
                        (E2ERemoved(tl) >= 0 /\ tl[k][1] >= E2ERemoved(tl) + 3000 /\ tl[k][3] # gone)
                          => P[gone + 1] \notin ReportedSet(tl[k][4])
         A == Ev.attempts IN
     /\ Rule(l, "NoPanic", Ev.panics = <<>> /\ \A a \in 1 .. Len(A) : \A k \in 1 .. Len(A[a]) : A[a][k][2] # "panic",
             <<"service discovery panicked", Ev.panics>>)
     /\ Rule(l, "DiscoverExact", \A a \in 1 .. Len(A) : Exact(A[a]),
             <<"a peer reported an instance nobody advertised (or one twice)", Ev.flavour,
               {a \in 1 .. Len(A) : ~Exact(A[a])}>>)
     /\ Rule(l, "E2EDiscovered", A # <<>> => \E a \in 1 .. Len(A) : Prompt(A[a]) /\ Stable(A[a]),
             <<"running peers do not see each other, in any attempt", Ev.flavour>>)
     \* the tokio flavour queues its goodbye and clears the store before the executor serves the queue: no goodbye
     \* is sent (Discovery.tla, RemoveAsync / Neg_Discovery_asyncbye); nothing is demanded of it here
     /\ Rule(l, "E2EGoodbye", (A # <<>> /\ Ev.flavour = "sync") => \E a \in 1 .. Len(A) : Goodbye(A[a]),
             <<"a peer that said goodbye is still listed three seconds later, in every attempt", Ev.flavour>>)

(* Framed (C04): packets without a wire form of their own (extended rcode, no OPT) were serialised plain and     *)
(* compressed (e.outs); whatever was written must be a well-framed message: counts = entries written, every       *)
(* RDLENGTH exact, nothing after the last entry -- with e.counts questions / answers / authority records and      *)
(* e.counts[4] or e.counts[4] + 1 additional records (an OPT the serialiser may add must be counted)              *)
TraceFramed ==
  /\ Ev.ev = "Framed"
  /\ \A i \in 1 .. Len(Ev.outs) :
       LET o == Ev.outs[i]
           d == IF o[1] = "ok" THEN RefDecode(o[2]) ELSE MErr("n/a") IN
       /\ Rule(l, "NoPanic", o[1] # "panic", <<"serialise", o>>)
       /\ Rule(l, "WellFramed",
               o[1] = "ok" => (/\ d.ok /\ d.exact /\ d.end = Len(o[2])
                               /\ d.counts[1] = Ev.counts[1] /\ d.counts[2] = Ev.counts[2] /\ d.counts[3] = Ev.counts[3]
                               /\ d.counts[4] \in {Ev.counts[4], Ev.counts[4] + 1}),
               <<"output", i, IF d.ok THEN <<"end", d.end, "len", Len(o[2]), "counts", d.counts>> ELSE d.why>>)

(* RespRun (C13, sampled on real sockets): a real SimpleMdnsResponder serving e.records answered e.queries sent   *)
(* over the loopback multicast group; per query and attempt, a.uni = the replies that reached a plain socket (only  *)
(* unicast replies can), a.multi = those that reached a socket joined to the group.  Content is judged with the    *)
(* reply bounds of Store.tla at every observed reply; the destination must be unicast iff some question asked for  *)
(* it; a query that must be answered must be seen answered in at least one attempt (datagrams may be lost).        *)
RespReplies(a) == [i \in 1 .. (Len(a.uni) + Len(a.multi)) |-> IF i <= Len(a.uni) THEN a.uni[i] ELSE a.multi[i - Len(a.uni)]]
TraceRespRun ==
  /\ Ev.ev = "RespRun"
  /\ Rule(l, "NoPanic", Ev.panics = <<>>, <<"responder panicked", Ev.panics>>)
  /\ LET auth == {KeyOf(Ev.records[i]) : i \in 1 .. Len(Ev.records)} IN
     \A qi \in 1 .. Len(Ev.queries) :
       LET q == Ev.queries[qi]
           upper == UpperAnswers(auth, q.qd)
           lower == LowerAnswers(auth, q.qd)
           someQU == \E i \in 1 .. Len(q.qd) : q.qd[i].unicast IN
       /\ \A ai \in 1 .. Len(q.attempts) :
            LET a == q.attempts[ai]
                reps == RespReplies(a) IN
            /\ \A ri \in 1 .. Len(reps) :
                 LET p == reps[ri] IN
                 IF "unparsed" \in DOMAIN p
                 THEN Rule(l, "ReplyMeta", FALSE, <<"a reply that does not parse", qi, Ev.flavour>>)
                 ELSE LET ans == {KeyOf(p.an[i]) : i \in 1 .. Len(p.an)}
                          add == {KeyOf(p.ar[i]) : i \in 1 .. Len(p.ar)} IN
                      /\ Rule(l, "ReplyUpper", ans \subseteq upper, <<"query", qi, Ev.flavour, "not-allowed", {<<k.name, k.type, k.class>> : k \in ans \ upper}>>)
                      /\ Rule(l, "ReplyLower", lower \subseteq ans, <<"query", qi, Ev.flavour, "missing", {<<k.name, k.type, k.class>> : k \in lower \ ans}>>)
                      /\ Rule(l, "ReplyAddl", \A x \in add : AdditionalOK(auth, ans, x),
                              <<"query", qi, Ev.flavour, "additional", {<<x.name, x.type>> : x \in {y \in add : ~AdditionalOK(auth, ans, y)}}>>)
                      /\ Rule(l, "ReplyMeta", p.id = a.id /\ Bit(p.fs, 15) /\ Len(p.an) > 0, <<"query", qi, Ev.flavour, "id", p.id, "fs", p.fs>>)
            \* where the reply went
            /\ Rule(l, "ReplyMeta", (a.uni # <<>> => someQU) /\ (a.multi # <<>> => ~someQU),
                    <<"query", qi, Ev.flavour, "unicast-requested", someQU, "unicast-replies", Len(a.uni), "multicast-replies", Len(a.multi)>>)
       /\ Rule(l, "E2EReplied", (lower # {} /\ q.attempts # <<>>) => \E ai \in 1 .. Len(q.attempts) : q.attempts[ai].uni # <<>> \/ q.attempts[ai].multi # <<>>,
               <<"a query that must be answered got no reply in any attempt", qi, Ev.flavour>>)

(* ResolverRun (diagnostic): script e.script (Gen_Resolver) was multicast to a real OneShotMdnsResolver of flavour   *)
(* e.flavour that was waiting in query_service_address ("addr") / query_service_address_and_port ("addr_port");      *)
(* e.out is what it returned.  It must be what Resolver.tla computes for the script, or -- a datagram may be lost --  *)
(* for the script with some datagrams left out.                                                                      *)
RECURSIVE SubScripts(_)
SubScripts(s) == IF s = <<>> THEN {<<>>}
                 ELSE LET rest == SubScripts(Tail(s)) IN rest \cup {<<Head(s)>> \o r : r \in rest}
TraceResolverRun ==
  /\ Ev.ev = "ResolverRun"
  /\ Rule(l, "NoPanic", Ev.out[1] # "panic", <<"one-shot resolver", Ev.flavour, Ev.mode, Ev.out>>)
  /\ Rule(l, "ResolverOutcome",
          Ev.out[1] \in {"inconclusive"} \/ \E sub \in SubScripts(Ev.script) : Ev.out = Outcome(Ev.mode, sub),
          <<Ev.flavour, Ev.mode, "returned", Ev.out, "model", Outcome(Ev.mode, Ev.script)>>)

(* ApiTrace (C02, C08): an API history of the builder machine (Builder.tla) was replayed    *)
(* on a real Packet; e.states[i] is the projection of the real packet after call i       *)
TraceApi ==
  /\ Ev.ev = "ApiTrace"
  /\ LET model == RunOps(Ev.hist) IN
     /\ Rule(l, "NoPanic", Len(Ev.states) = Len(Ev.hist), <<"api call panicked at", Len(Ev.states)>>)
     /\ \A i \in 1 .. Len(Ev.states) :
          Rule(l, "ApiStep", Ev.states[i] = model[i],
               <<"call", i, Ev.hist[i].op, "field", IF DOMAIN Ev.states[i] = DOMAIN model[i] THEN PktDiff(Ev.states[i], model[i])
                                                   ELSE IF "refused" \in DOMAIN Ev.states[i] THEN "refused" ELSE "panic">>)
     \* C08 after every call of the history (a packet that came from the parser and was then edited included):
     \* what the real packet serialises to starts with the id and the flag word of the model's state
     /\ \A i \in 1 .. Len(Ev.wire) :
          LET m == model[i]
              \* C08 speaks of named opcodes and response codes: where the model's state holds a received code
              \* the library has no name for (observed as -1; what is written for it is C11's business) those
              \* four bits are left out of the comparison
              opMask == IF m.opcode = -1 THEN 30720 ELSE 0         \* 0x7800
              rcMask == IF m.rcode = -1 THEN 15 ELSE 0
              Clear(w) == w - (((w \div 2048) % 16) * 2048) * (IF opMask = 0 THEN 0 ELSE 1) - (w % 16) * (IF rcMask = 0 THEN 0 ELSE 1)
              want == FlagWord({n \in FlagNames : Bit(m.fs, FlagBit(n))}, IF m.opcode = -1 THEN 0 ELSE m.opcode, IF m.rcode = -1 THEN 0 ELSE m.rcode % 16) IN
          Rule(l, "HdrFields",
               Len(Ev.wire[i]) = 4 => (SubSeq(Ev.wire[i], 1, 2) = BE16(m.id) /\ Clear(Ev.wire[i][3] * 256 + Ev.wire[i][4]) = want),
               <<"header-written-after-call", i, Ev.hist[i].op, Ev.wire[i], "id", m.id, "fs", m.fs, "opcode", m.opcode, "rcode", m.rcode>>)
     \* C02 on the packet the history built (wire-representable: every state of the builder machine is):
     \* parse(build(p)) = p, p being the real packet's own projection after the last call
     /\ Rule(l, "RoundTrip",
             Len(Ev.states) = Len(Ev.hist) => (Ev.last[1] = "ok" /\ Ev.back[1] = "ok" /\ Ev.back[2] = Ev.states[Len(Ev.states)]),
             <<"history-built packet", Ev.last[1], Ev.back[1],
               IF Ev.back[1] = "ok" /\ Len(Ev.states) = Len(Ev.hist) THEN PktDiff(Ev.back[2], Ev.states[Len(Ev.states)]) ELSE "-">>)

(* Reparse (C11): bytes e.b accepted by the parser (e.p1), re-serialised plain  *)
(* (e.b2) and compressed (e.b3), each parsed again (e.p2, e.p3)                 *)
TraceReparse ==
  /\ Ev.ev = "Reparse"
  /\ Ev.p1[1] = "ok"
  /\ Rule(l, "NoPanic", "panic" \notin {Ev.b2[1], Ev.b3[1], Ev.p2[1], Ev.p3[1]}, <<"reparse", Ev.b2[1], Ev.b3[1], Ev.p2[1], Ev.p3[1]>>)
  /\ Rule(l, "ReparseEqual", Ev.b2[1] = "ok" /\ Ev.p2[1] = "ok" /\ Ev.p2[2] = Ev.p1[2],
          <<"plain", Ev.b2[1], Ev.p2[1], IF Ev.p2[1] = "ok" THEN PktDiff(Ev.p2[2], Ev.p1[2]) ELSE "-", "p1.rcode", Ev.p1[2].rcode>>)
  /\ Rule(l, "ReparseEqual", Ev.b3[1] = "ok" /\ Ev.p3[1] = "ok" /\ Ev.p3[2] = Ev.p1[2],
          <<"comp", Ev.b3[1], Ev.p3[1], IF Ev.p3[1] = "ok" THEN PktDiff(Ev.p3[2], Ev.p1[2]) ELSE "-", "p1.rcode", Ev.p1[2].rcode>>)

-----------------------------------------------------------------------------
(* Store sessions (C13, C20): the abstract store of Store.tla is carried in st   *)
(* and evolved by the recorded operations; every reply / query of the real store *)
(* must lie within what the abstract store allows at that moment.                *)
(*   st.auth   : set of authoritative record keys                                *)
(*   st.cached : function key -> <<lo, hi>>, the interval (ms) that contains the *)
(*               instant at which the cached record expires; it is narrowed by   *)
(*               every query that shows the record alive or gone                 *)
\*   st.names  : owner names ever inserted since the last clear (the keys present in the trie): used only
\*               by the diagnostic rule ImplExact, which binds the Impl lookup model of Store.tla to the code
\*   st.recv   : function key -> <<t0, t1, life>>: when (ms interval) the cached record was last received and its
\*               effective TTL in seconds; used only by the diagnostic rule NextRefresh
EmptyStore == [auth |-> {}, cached |-> <<>>, names |-> {}, recv |-> <<>>]

TtlSeconds(ttl) == IF ttl[1] > 0 \/ ttl[2] > 0 THEN 1000000 ELSE ttl[3] * 256 + ttl[4]
DropKey(f, k) == [x \in DOMAIN f \ {k} |-> f[x]]
PutKey(f, k, v) == [x \in DOMAIN f \cup {k} |-> IF x = k THEN v ELSE f[x]]
Max(a, b) == IF a > b THEN a ELSE b
Min(a, b) == IF a < b THEN a ELSE b

TraceReset == Ev.ev = "Reset" /\ st' = EmptyStore

TraceStoreOp ==
  /\ Ev.ev = "StoreOp"
  /\ Rule(l, "NoPanic", Ev.out # "panic", <<"store", Ev.op>>)
  /\ LET k == IF Ev.op = "clear" THEN <<>> ELSE KeyOf(Ev.rec) IN
     CASE Ev.op = "add_auth" -> st' = [auth |-> st.auth \cup {k}, cached |-> DropKey(st.cached, k), names |-> st.names \cup {k.name},
                                       recv |-> DropKey(st.recv, k)]
       [] Ev.op = "add_cached" ->
            IF k \in st.auth THEN st' = st       \* a locally registered record stays authoritative
            ELSE LET life == (IF Ev.rec.cf THEN 1 ELSE TtlSeconds(Ev.rec.ttl)) * 1000 IN
                 st' = [st EXCEPT !.cached = PutKey(@, k, <<Ev.t0 + life, Ev.t1 + life>>), !.names = @ \cup {k.name},
                                  !.recv = PutKey(@, k, <<Ev.t0, Ev.t1, life \div 1000>>)]
       [] Ev.op = "remove" -> st' = [auth |-> st.auth \ {k}, cached |-> DropKey(st.cached, k), names |-> st.names,
                                     recv |-> DropKey(st.recv, k)]
       [] Ev.op = "clear" -> st' = EmptyStore

\* a store query over [t0, t1] with one of the four filters returned the records e.recs
FilterAuth(f) == f \in {"auth", "auth_sub", "all"}
FilterCached(f) == f \in {"cached", "all"}
FilterSub(f) == f # "auth"
TraceStoreQuery ==
  /\ Ev.ev = "StoreQuery"
  /\ LET got == {KeyOf(Ev.recs[i]) : i \in 1 .. Len(Ev.recs)}
         f == Ev.filter
         owned(k) == IF FilterSub(f) THEN OwnerRelated(k.name, Ev.name) ELSE k.name = Ev.name
         exact == {k \in DOMAIN st.cached : k.name = Ev.name} IN
     /\ Rule(l, "NoPanic", ~Ev.panicked, <<"get_domain_resources", f>>)
     \* only stored records of the requested kinds, under the requested name
     /\ Rule(l, "QueryUpper",
             \A k \in got : owned(k) /\ ((FilterAuth(f) /\ k \in st.auth) \/ (FilterCached(f) /\ k \in DOMAIN st.cached)),
             <<"filter", f, "stray", {k \in got : ~(owned(k) /\ (k \in st.auth \/ k \in DOMAIN st.cached))}>>)
     /\ Rule(l, "AuthNotCached", (~FilterAuth(f)) => got \cap st.auth = {}, <<"authoritative record under the cached-only filter">>)
     /\ Rule(l, "AuthForever", FilterAuth(f) => {k \in st.auth : k.name = Ev.name} \subseteq got,
             <<"missing", {k \in st.auth : k.name = Ev.name} \ got>>)
     \* a cached record shown now must not have expired before the query started
     /\ Rule(l, "CacheExpired", FilterCached(f) => \A k \in got \cap DOMAIN st.cached : Ev.t0 < st.cached[k][2],
             <<"returned-after-expiry", {<<k.name, st.cached[k], Ev.t0>> : k \in {x \in got \cap DOMAIN st.cached : Ev.t0 >= st.cached[x][2]}}>>)
     \* a cached record owned by exactly the queried name and not shown must be able to have expired by the end
     /\ Rule(l, "CacheVisible", FilterCached(f) => \A k \in exact \ got : Ev.t1 >= st.cached[k][1],
             <<"hidden-before-expiry", {<<k.name, st.cached[k], Ev.t1>> : k \in {x \in exact \ got : Ev.t1 < st.cached[x][1]}}>>)
     \* narrow the expiry intervals with what this query showed
     /\ st' = IF FilterCached(f)
              THEN [st EXCEPT !.cached = [k \in DOMAIN st.cached |->
                       IF k \in got THEN <<Max(st.cached[k][1], Ev.t0 + 1), st.cached[k][2]>>
                       ELSE IF k \in exact THEN <<st.cached[k][1], Min(st.cached[k][2], Ev.t1)>>
                       ELSE st.cached[k]]]
              ELSE st

(* StoreRefresh (diagnostic): get_next_refresh() over [t0, t1] returned e.out = <<"none">> | <<"some", ms>>:   *)
(* the earliest refresh instant among the cached records whose refresh instant has passed (expired records  *)
(* are never purged, so they keep being reported: modelled as the code behaves)                              *)
RefreshLo(k) == st.recv[k][1] + RefreshDelay(st.recv[k][3]) * 1000
RefreshHi(k) == st.recv[k][2] + RefreshDelay(st.recv[k][3]) * 1000
TraceStoreRefresh ==
  /\ Ev.ev = "StoreRefresh" /\ st' = st
  /\ LET ks == DOMAIN st.recv IN
     Rule(l, "NextRefresh",
          IF Ev.out[1] = "none" THEN \A k \in ks : RefreshHi(k) + 1 >= Ev.t0        \* nothing surely overdue
          ELSE /\ \E k \in ks : Ev.out[2] >= RefreshLo(k) - 1 /\ Ev.out[2] <= RefreshHi(k) + 1 /\ RefreshLo(k) - 1 <= Ev.t1
               /\ \A k \in ks : (RefreshHi(k) + 1 < Ev.t0) => Ev.out[2] <= RefreshHi(k) + 1,      \* it is the minimum
          <<"next-refresh", Ev.out, "window", Ev.t0, Ev.t1, "schedule", {<<RefreshLo(k), RefreshHi(k)>> : k \in ks}>>)

(* Reply: build_reply(query) against the store: e.out = <<"none">> | <<"some", pkt, unicast>> *)
TraceReply ==
  /\ Ev.ev = "Reply"
  /\ st' = st
  /\ Rule(l, "NoPanic", Ev.out[1] # "panic", <<"build_reply", Ev.out>>)
  /\ LET upper == UpperAnswers(st.auth, Ev.qd)
         lower == LowerAnswers(st.auth, Ev.qd) IN
     IF Ev.out[1] = "some" THEN
       LET p == Ev.out[2]
           ans == {KeyOf(p.an[i]) : i \in 1 .. Len(p.an)}
           add == {KeyOf(p.ar[i]) : i \in 1 .. Len(p.ar)} IN
       /\ Rule(l, "ReplyUpper", ans \subseteq upper, <<"not-allowed", {<<k.name, k.type, k.class>> : k \in ans \ upper}>>)
       /\ Rule(l, "ReplyLower", lower \subseteq ans, <<"missing", {<<k.name, k.type, k.class>> : k \in lower \ ans}>>)
       /\ Rule(l, "ReplyAddl", \A a \in add : AdditionalOK(st.auth, ans, a),
               <<"additional", {<<a.name, a.type>> : a \in {x \in add : ~AdditionalOK(st.auth, ans, x)}}>>)
       \* diagnostic (never part of a property's rule set): the answers are exactly those the Impl lookup model
       \* (trie keys, subtrie only where a node sits at the key) predicts
       /\ Rule(l, "ImplExact", ans = ImplAnswers(st.auth, st.names, Ev.qd, "lenprefix"),
               <<"model", {<<k.name, k.type>> : k \in ImplAnswers(st.auth, st.names, Ev.qd, "lenprefix")}, "code", {<<k.name, k.type>> : k \in ans}>>)
       /\ Rule(l, "ReplyMeta",
               /\ p.id = Ev.id /\ Bit(p.fs, 15) /\ Len(p.an) > 0
               /\ Ev.out[3] = (\E i \in 1 .. Len(Ev.qd) : Ev.qd[i].unicast),
               <<"id", p.id, "fs", p.fs, "unicast", Ev.out[3]>>)
     ELSE
       /\ Rule(l, "ReplyNone", Ev.out[1] = "none" => lower = {}, <<"no-reply-but-must-answer", {<<k.name, k.type>> : k \in lower}>>)
       /\ Rule(l, "ImplExact", Ev.out[1] = "none" => ImplAnswers(st.auth, st.names, Ev.qd, "lenprefix") = {},
               <<"model", {<<k.name, k.type>> : k \in ImplAnswers(st.auth, st.names, Ev.qd, "lenprefix")}, "code", "none">>)

-----------------------------------------------------------------------------
Init == l = 1 /\ st = EmptyStore

Stateless ==
        \/ TraceHdrWords
           \/ TraceHdrBuilds
           \/ TraceFlagOps
           \/ TraceNameDecode
           \/ TraceNameNew \/ TraceLabelNew \/ TraceNameRel
           \/ TraceTxtSplit \/ TraceTxtAttrs \/ TraceTxtRaw \/ TraceTxtLong \/ TraceCStrNew
           \/ TraceDiscover \/ TraceEscape \/ TraceDatagram \/ TraceNetRun
           \/ TraceApi \/ TraceResolverRun \/ TraceRespRun \/ TraceFramed \/ TraceE2E \/ TraceE2EForeign \/ TraceSvcbApi \/ TraceValueCmp \/ TraceParse \/ TracePeek \/ TraceInspect \/ TraceSinkBuild \/ TraceRoundTrip \/ TraceReparse
           \/ TraceCodeConv \/ TraceWireCodes \/ TraceMnemonics \/ TraceMatchType \/ TraceMatchClass

Next == /\ l <= Len(Rec)
        /\ l' = l + 1
        /\ \/ (Stateless /\ UNCHANGED st)
           \/ TraceReset \/ TraceStoreOp \/ TraceStoreQuery \/ TraceStoreRefresh \/ TraceReply

Spec == Init /\ [][Next]_vars

\* structural acceptance: every line was consumed
Accepted ==
  IF TLCGet("stats").diameter - 1 = Len(Rec) THEN PrintT(<<"TRACE-ACCEPTED", Len(Rec)>>)
  ELSE PrintT(<<"TRACE-REJECTED-AT", TLCGet("stats").diameter, Rec[TLCGet("stats").diameter].ev>>) /\ FALSE
=============================================================================
