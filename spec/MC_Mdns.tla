------------------------------- MODULE MC_Mdns -------------------------------
(***************************************************************************)
(* C14 at the level of the design: one mDNS node with a Receiver thread, an *)
(* App thread and a store behind a reader/writer lock, processing datagrams *)
(* of several classes through the pipeline                                  *)
(*   Recv -> Peek -> Parse -> (Lock -> Ingest -> Unlock |                   *)
(*                             Lock -> Reply -> Unlock -> Serialise -> Send)*)
(* A pipeline step that is not total on a datagram class panics; a panic    *)
(* while the write lock is held poisons the lock and the App's next access  *)
(* panics too.  Partial is the set of <<step, class>> pairs on which a step *)
(* is not total: with Partial = {} TLC proves the receiver stays alive and  *)
(* the lock clean for every interleaving; the pinned tree's partial steps   *)
(* are kept as a negative configuration.                                    *)
(* Also checks Escape/Unescape (RFC 6763) on all strings up to length 4.    *)
(***************************************************************************)
EXTENDS Mdns, TLC

CONSTANTS Partial, MaxDatagrams

NoPartial == {}
\* the partial steps of the pinned tree: header peek on an empty datagram, store key of a non-UTF-8 name
PinnedPartial == {<<"peek", "empty">>, <<"ingest", "hostile-name-response">>, <<"reply", "hostile-name-query">>}

Classes == {"empty", "short", "malformed", "query", "response", "hostile-name-response", "hostile-name-query"}

VARIABLES rx, step, cur, lock, poisoned, alive, appAlive, sent, n
vars == <<rx, step, cur, lock, poisoned, alive, appAlive, sent, n>>

Init == rx = "idle" /\ step = "recv" /\ cur = "none" /\ lock = "free" /\ poisoned = FALSE
        /\ alive = TRUE /\ appAlive = TRUE /\ sent = 0 /\ n = 0

Panics(s) == <<s, cur>> \in Partial

Die == /\ alive' = FALSE
       /\ poisoned' = (poisoned \/ lock = "W-rx")
       /\ lock' = IF lock \in {"W-rx", "R-rx"} THEN "free" ELSE lock
       /\ UNCHANGED <<rx, step, cur, appAlive, sent, n>>

Recv == /\ alive /\ step = "recv" /\ n < MaxDatagrams
        /\ \E c \in Classes : cur' = c
        /\ step' = "peek" /\ n' = n + 1
        /\ UNCHANGED <<rx, lock, poisoned, alive, appAlive, sent>>

Peek == /\ alive /\ step = "peek"
        /\ IF Panics("peek") THEN Die
           ELSE /\ step' = IF cur \in {"empty", "short"} THEN "recv" ELSE "parse"
                /\ UNCHANGED <<rx, cur, lock, poisoned, alive, appAlive, sent, n>>

Parse == /\ alive /\ step = "parse"
         /\ IF Panics("parse") THEN Die
            ELSE /\ step' = CASE cur = "malformed" -> "recv"
                              [] cur \in {"response", "hostile-name-response"} -> "lock-w"
                              [] OTHER -> "lock-r"
                 /\ UNCHANGED <<rx, cur, lock, poisoned, alive, appAlive, sent, n>>

LockW == /\ alive /\ step = "lock-w" /\ lock = "free"
         /\ IF poisoned THEN Die
            ELSE lock' = "W-rx" /\ step' = "ingest" /\ UNCHANGED <<rx, cur, poisoned, alive, appAlive, sent, n>>
Ingest == /\ alive /\ step = "ingest"
          /\ IF Panics("ingest") THEN Die
             ELSE lock' = "free" /\ step' = "recv" /\ UNCHANGED <<rx, cur, poisoned, alive, appAlive, sent, n>>
LockR == /\ alive /\ step = "lock-r" /\ lock \in {"free", "R-app"}
         /\ IF poisoned THEN Die
            ELSE lock' = "R-rx" /\ step' = "reply" /\ UNCHANGED <<rx, cur, poisoned, alive, appAlive, sent, n>>
Reply == /\ alive /\ step = "reply"
         /\ IF Panics("reply") THEN Die
            ELSE lock' = "free" /\ step' = "serialise" /\ UNCHANGED <<rx, cur, poisoned, alive, appAlive, sent, n>>
Serialise == /\ alive /\ step = "serialise"
             /\ IF Panics("serialise") THEN Die
                ELSE sent' = sent + 1 /\ step' = "recv" /\ UNCHANGED <<rx, cur, lock, poisoned, alive, appAlive, n>>

\* the application reads or writes the store at any time (get_known_services, add_resource, ...)
AppAccess == /\ appAlive /\ lock = "free"
             /\ IF poisoned THEN appAlive' = FALSE /\ UNCHANGED <<rx, step, cur, lock, poisoned, alive, sent, n>>
                ELSE UNCHANGED vars

Next == Recv \/ Peek \/ Parse \/ LockW \/ Ingest \/ LockR \/ Reply \/ Serialise \/ AppAccess
Spec == Init /\ [][Next]_vars

\* C14
ReceiverAlive == alive
LockClean == ~poisoned
AppUsable == appAlive

\* RFC 6763 escaping is invertible (all strings up to length 4 over {a . \ e-acute})
EscSyms == {97, 46, 92, 233}
ASSUME \A k \in 0 .. 4 : \A s \in [1 .. k -> EscSyms] : Unescape(Escape(s)) = s
=============================================================================
