SPECIFICATION Spec
CONSTANTS
  Alphabet = {0, 1, 2, 3, 63, 64, 128, 192, 193, 194, 195, 97}
  L = 4
INVARIANT Emit
CHECK_DEADLOCK FALSE
