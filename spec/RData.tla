-------------------------------- MODULE RData --------------------------------
(***************************************************************************)
(* RDATA layouts, one declarative schema per record type, written from the  *)
(* RFC that defines the type (DESIGN.md Appendix C), and a generic decoder  *)
(* and encoder that interpret the schemas.  Ref layer for C10 and for the   *)
(* RDATA part of C02/C05/C07/C11.                                           *)
(*                                                                          *)
(* A value of a type is the sequence of its field values in wire order:     *)
(*   F(n)   n bytes (integers are big-endian byte sequences)                *)
(*   N      a domain name: sequence of labels                               *)
(*   S      a character-string: its bytes (0..255)                          *)
(*   R      opaque data to the end of the RDATA: its bytes                  *)
(*   SS     one or more character-strings to the end (TXT)                  *)
(*   TLV    (code(2) length(2) data)* to the end: <<code, data>> pairs      *)
(*   TLVI   the same with strictly increasing codes (SVCB parameters)       *)
(*   NW     NSEC type bitmaps (window(1) length(1) bitmap)* with strictly   *)
(*          increasing windows: <<window, bitmap>> pairs                    *)
(*   GW     IPSECKEY gateway, selected by the gateway-type field before it  *)
(***************************************************************************)
EXTENDS NameWire

Fx(n) == [t |-> "F", n |-> n]
Nm == [t |-> "N", n |-> 0]
Cs == [t |-> "S", n |-> 0]
Rst == [t |-> "R", n |-> 0]
Css == [t |-> "SS", n |-> 0]
Tlv == [t |-> "TLV", n |-> 0]
Tlvi == [t |-> "TLVI", n |-> 0]
Nw == [t |-> "NW", n |-> 0]
Gw == [t |-> "GW", n |-> 0]

NameOnlyTypes == {2, 3, 4, 5, 7, 8, 9, 12, 23}   \* NS MD MF CNAME MB MG MR PTR NSAP-PTR

Schema(t) ==
  CASE t = 1 -> <<Fx(4)>>                                                  \* A        RFC 1035
    [] t \in NameOnlyTypes -> <<Nm>>
    [] t = 6 -> <<Nm, Nm, Fx(4), Fx(4), Fx(4), Fx(4), Fx(4)>>                    \* SOA      RFC 1035
    [] t = 11 -> <<Fx(4), Fx(1), Rst>>                                        \* WKS      RFC 1035
    [] t = 13 -> <<Cs, Cs>>                                                 \* HINFO    RFC 1035
    [] t = 14 -> <<Nm, Nm>>                                                 \* MINFO    RFC 1035
    [] t = 15 -> <<Fx(2), Nm>>                                              \* MX       RFC 1035
    [] t = 16 -> <<Css>>                                                   \* TXT      RFC 1035
    [] t = 17 -> <<Nm, Nm>>                                                 \* RP       RFC 1183
    [] t = 18 -> <<Fx(2), Nm>>                                              \* AFSDB    RFC 1183
    [] t = 20 -> <<Cs, Cs>>                                                 \* ISDN     RFC 1183 (crate: both strings)
    [] t = 21 -> <<Fx(2), Nm>>                                              \* RT       RFC 1183
    [] t = 22 -> <<Fx(1), Fx(2), Fx(1), Fx(3), Fx(2), Fx(2), Fx(2), Fx(6), Fx(1)>> \* NSAP     RFC 1706 (fixed GOSIP layout)
    [] t = 28 -> <<Fx(16)>>                                                \* AAAA     RFC 3596
    [] t = 29 -> <<Fx(1), Fx(1), Fx(1), Fx(1), Fx(4), Fx(4), Fx(4)>>             \* LOC      RFC 1876
    [] t = 33 -> <<Fx(2), Fx(2), Fx(2), Nm>>                                  \* SRV      RFC 2782
    [] t = 35 -> <<Fx(2), Fx(2), Cs, Cs, Cs, Nm>>                               \* NAPTR    RFC 3403
    [] t = 36 -> <<Fx(2), Nm>>                                              \* KX       RFC 2230
    [] t = 37 -> <<Fx(2), Fx(2), Fx(1), Rst>>                                  \* CERT     RFC 4398
    [] t = 41 -> <<Tlv>>                                                  \* OPT      RFC 6891
    [] t = 43 -> <<Fx(2), Fx(1), Fx(1), Rst>>                                  \* DS       RFC 4034
    [] t = 45 -> <<Fx(1), Fx(1), Fx(1), Gw, Rst>>                              \* IPSECKEY RFC 4025
    [] t = 46 -> <<Fx(2), Fx(1), Fx(1), Fx(4), Fx(4), Fx(4), Fx(2), Nm, Rst>>       \* RRSIG    RFC 4034
    [] t = 47 -> <<Nm, Nw>>                                                \* NSEC     RFC 4034
    [] t = 48 -> <<Fx(2), Fx(1), Fx(1), Rst>>                                  \* DNSKEY   RFC 4034
    [] t = 49 -> <<Fx(2), Fx(1), Rst>>                                        \* DHCID    RFC 4701
    [] t = 63 -> <<Fx(4), Fx(1), Fx(1), Rst>>                                  \* ZONEMD   RFC 8976
    [] t \in {64, 65} -> <<Fx(2), Nm, Tlvi>>                                \* SVCB/HTTPS RFC 9460
    [] t = 108 -> <<Fx(6)>>                                                \* EUI48    RFC 7043
    [] t = 109 -> <<Fx(8)>>                                                \* EUI64    RFC 7043
    [] t = 257 -> <<Fx(1), Cs, Rst>>                                          \* CAA      RFC 8659
    [] OTHER -> <<Rst>>                                                     \* NULL / unknown: RFC 1035 / 3597

TypedTypes == {1, 6, 11, 13, 14, 15, 16, 17, 18, 20, 21, 22, 28, 29, 33, 35, 36, 37, 41, 43, 45, 46, 47, 48, 49,
               63, 64, 65, 108, 109, 257} \cup NameOnlyTypes

\* compression class of names embedded in the RDATA of a type, for output (C07):
\* "M" RFC 1035 types (a repeated name must be a pointer), "N" compression forbidden,
\* "-" unconstrained (RFC 3597 says no, older practice says yes; either accepted)
CompressClass(t) ==
  IF t \in {2, 3, 4, 5, 7, 8, 9, 12, 6, 14, 15} THEN "M"
  ELSE IF t \in {33, 35, 36, 46, 47, 45, 64, 65} THEN "N"
  ELSE "-"

DErr(why) == [ok |-> FALSE, why |-> why, f |-> <<>>, next |-> -1]

RECURSIVE DecStrings(_, _, _, _)
DecStrings(b, pos, hi, acc) ==
  IF pos = hi THEN [ok |-> TRUE, v |-> acc]
  ELSE IF pos + 1 + b[pos + 1] > hi THEN [ok |-> FALSE, v |-> <<>>]
  ELSE DecStrings(b, pos + 1 + b[pos + 1], hi, Append(acc, SubSeq(b, pos + 2, pos + 1 + b[pos + 1])))

\* prev: last code seen (for the strictly-increasing variant), -1 initially
RECURSIVE DecTLV(_, _, _, _, _, _)
DecTLV(b, pos, hi, acc, inc, prev) ==
  IF pos = hi THEN [ok |-> TRUE, v |-> acc, why |-> ""]
  ELSE IF pos + 4 > hi THEN [ok |-> FALSE, v |-> <<>>, why |-> "inner-length-overrun"]
  ELSE LET code == b[pos + 1] * 256 + b[pos + 2]
           len == b[pos + 3] * 256 + b[pos + 4] IN
    IF pos + 4 + len > hi THEN [ok |-> FALSE, v |-> <<>>, why |-> "inner-length-overrun"]
    ELSE IF inc /\ code <= prev THEN [ok |-> FALSE, v |-> <<>>, why |-> "keys-not-increasing"]
    ELSE DecTLV(b, pos + 4 + len, hi, Append(acc, <<code, SubSeq(b, pos + 5, pos + 4 + len)>>), inc, code)

RECURSIVE DecWindows(_, _, _, _, _)
DecWindows(b, pos, hi, acc, prev) ==
  IF pos = hi THEN [ok |-> TRUE, v |-> acc, why |-> ""]
  ELSE IF pos + 2 > hi THEN [ok |-> FALSE, v |-> <<>>, why |-> "inner-length-overrun"]
  ELSE LET win == b[pos + 1]
           len == b[pos + 2] IN
    IF pos + 2 + len > hi THEN [ok |-> FALSE, v |-> <<>>, why |-> "inner-length-overrun"]
    ELSE IF win <= prev THEN [ok |-> FALSE, v |-> <<>>, why |-> "windows-not-increasing"]
    ELSE DecWindows(b, pos + 2 + len, hi, Append(acc, <<win, SubSeq(b, pos + 3, pos + 2 + len)>>), win)

\* decode fields i.. of schema sc from b[pos, hi); acc = values so far
RECURSIVE DecFields(_, _, _, _, _, _)
DecFields(sc, i, b, pos, hi, acc) ==
  IF i > Len(sc) THEN [ok |-> TRUE, why |-> "", f |-> acc, next |-> pos]
  ELSE LET d == sc[i] IN
    CASE d.t = "F" ->
           IF pos + d.n > hi THEN DErr("short-fixed")
           ELSE DecFields(sc, i + 1, b, pos + d.n, hi, Append(acc, SubSeq(b, pos + 1, pos + d.n)))
      [] d.t = "N" ->
           LET r == RefDecodeNameIn(b, pos, hi) IN
           IF ~r.ok THEN DErr("name:" \o r.why)
           ELSE DecFields(sc, i + 1, b, r.next, hi, Append(acc, r.labels))
      [] d.t = "S" ->
           IF pos >= hi THEN DErr("short-string")
           ELSE IF pos + 1 + b[pos + 1] > hi THEN DErr("inner-length-overrun")
           ELSE DecFields(sc, i + 1, b, pos + 1 + b[pos + 1], hi, Append(acc, SubSeq(b, pos + 2, pos + 1 + b[pos + 1])))
      [] d.t = "R" -> DecFields(sc, i + 1, b, hi, hi, Append(acc, SubSeq(b, pos + 1, hi)))
      [] d.t = "SS" ->
           LET r == DecStrings(b, pos, hi, <<>>) IN
           IF ~r.ok THEN DErr("inner-length-overrun")
           ELSE DecFields(sc, i + 1, b, hi, hi, Append(acc, r.v))
      [] d.t \in {"TLV", "TLVI"} ->
           LET r == DecTLV(b, pos, hi, <<>>, d.t = "TLVI", -1) IN
           IF ~r.ok THEN DErr(r.why)
           ELSE DecFields(sc, i + 1, b, hi, hi, Append(acc, r.v))
      [] d.t = "NW" ->
           LET r == DecWindows(b, pos, hi, <<>>, -1) IN
           IF ~r.ok THEN DErr(r.why)
           ELSE DecFields(sc, i + 1, b, hi, hi, Append(acc, r.v))
      [] d.t = "GW" ->
           LET gt == acc[i - 2][1] IN     \* gateway type: the field two before the gateway
           CASE gt = 0 -> DecFields(sc, i + 1, b, pos, hi, Append(acc, <<>>))
             [] gt = 1 -> IF pos + 4 > hi THEN DErr("short-fixed")
                          ELSE DecFields(sc, i + 1, b, pos + 4, hi, Append(acc, SubSeq(b, pos + 1, pos + 4)))
             [] gt = 2 -> IF pos + 16 > hi THEN DErr("short-fixed")
                          ELSE DecFields(sc, i + 1, b, pos + 16, hi, Append(acc, SubSeq(b, pos + 1, pos + 16)))
             [] gt = 3 -> LET r == RefDecodeNameIn(b, pos, hi) IN
                          IF ~r.ok THEN DErr("name:" \o r.why)
                          ELSE DecFields(sc, i + 1, b, r.next, hi, Append(acc, r.labels))
             [] OTHER -> DErr("gateway-type")

\* RDATA of type t occupying b[lo, hi): [ok, why, f, exact]
\*   exact = the typed content fills the span exactly (no surplus bytes)
DecodeRData(t, b, lo, hi) ==
  LET r == DecFields(Schema(t), 1, b, lo, hi, <<>>) IN
  IF ~r.ok THEN [ok |-> FALSE, why |-> r.why, f |-> <<>>, exact |-> FALSE]
  ELSE IF t = 29 /\ r.f[1] # <<0>> THEN [ok |-> FALSE, why |-> "loc-version", f |-> <<>>, exact |-> FALSE]
  ELSE [ok |-> TRUE, why |-> "", f |-> r.f, exact |-> (r.next = hi)]

-----------------------------------------------------------------------------
\* reference encoder (never compresses)
RECURSIVE CatAll(_)
CatAll(ss) == IF ss = <<>> THEN <<>> ELSE Head(ss) \o CatAll(Tail(ss))

BE16b(n) == <<(n \div 256) % 256, n % 256>>

EncField(d, v, prevs) ==
  CASE d.t = "F" -> v
    [] d.t = "N" -> EncodeNamePlain(v)
    [] d.t = "S" -> <<Len(v)>> \o v
    [] d.t = "R" -> v
    [] d.t = "SS" -> CatAll([k \in 1 .. Len(v) |-> <<Len(v[k])>> \o v[k]])
    [] d.t \in {"TLV", "TLVI"} -> CatAll([k \in 1 .. Len(v) |-> BE16b(v[k][1]) \o BE16b(Len(v[k][2])) \o v[k][2]])
    [] d.t = "NW" -> CatAll([k \in 1 .. Len(v) |-> <<v[k][1], Len(v[k][2])>> \o v[k][2]])
    [] d.t = "GW" -> IF prevs[Len(prevs) - 1][1] = 3 THEN EncodeNamePlain(v) ELSE v

RECURSIVE EncFields(_, _, _)
EncFields(sc, f, i) ==
  IF i > Len(sc) THEN <<>>
  ELSE EncField(sc[i], f[i], SubSeq(f, 1, i - 1)) \o EncFields(sc, f, i + 1)

EncodeRData(t, f) == EncFields(Schema(t), f, 1)
=============================================================================
