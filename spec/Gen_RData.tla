------------------------------ MODULE Gen_RData ------------------------------
(* C10 generator and Ref self-consistency: for every record type and every      *)
(* value tuple of its schema's bounded domain, the reference decoder inverts    *)
(* the reference encoder exactly; every rule-breaking encoding is rejected by   *)
(* the reference decoder.  Each (type, values) and each bad encoding is printed *)
(* as a case for the harness.                                                   *)
EXTENDS Domains, TLC, Json

GenTypes == TypedTypes \cup {10, 99, 65280}

VARIABLES t, f, bad
Init == \/ /\ t \in GenTypes /\ f \in Tuples(t) /\ bad = <<>>
        \/ /\ \E e \in BadEncodings : t = e[1] /\ bad = e[2]
           /\ f = <<>>
Next == UNCHANGED <<t, f, bad>>
Spec == Init /\ [][Next]_<<t, f, bad>>

Inverse ==
  IF bad = <<>> THEN
    LET e == EncodeRData(t, f)
        d == DecodeRData(t, e, 0, Len(e)) IN
    d.ok /\ d.exact /\ d.f = f
  ELSE ~DecodeRData(t, bad, 0, Len(bad)).ok

\* the record as it appears in a reference-encoded one-answer response
OwnerName == <<<<111>>, <<97>>>>
RecOf == [name |-> OwnerName, type |-> t, class |-> 1, cf |-> FALSE, ttl |-> <<0, 0, 1, 44>>, rd |-> f]
PacketOf ==
  IF t = 41 THEN   \* OPT lives in the header of the abstract packet
    [id |-> 4660, fs |-> 32768, opcode |-> 0, rcode |-> 0,
     opt |-> <<[udp |-> 1232, version |-> 0, options |-> f[1]]>>, qd |-> <<>>, an |-> <<>>, ns |-> <<>>, ar |-> <<>>]
  ELSE
    [id |-> 4660, fs |-> 32768, opcode |-> 0, rcode |-> 0, opt |-> <<>>, qd |-> <<>>,
     an |-> <<RecOf>>, ns |-> <<>>, ar |-> <<>>]
BadMsg ==
  HdrEncode(4660, {"qr"}, 0, 0, 0, IF t = 41 THEN 0 ELSE 1, 0, IF t = 41 THEN 1 ELSE 0)
    \o EncodeNamePlain(IF t = 41 THEN <<>> ELSE OwnerName) \o BE16(t) \o BE16(1) \o <<0, 0, 0, 0>> \o BE16(Len(bad)) \o bad
    \o <<1, 122, 0, 0, 1, 0, 1, 0, 0, 0, 0, 0, 0>>     \* bytes that look like a following record

\* The same record as a third-party encoder may send it: after a question for c.b.a (so that c.b.a, b.a, a
\* and the root are at offsets 12, 14, 16, 18), with the owner and EVERY name of the RDATA that is one of
\* those four written as a bare pointer (RFC 1035 4.1.4; receivers decompress whatever the type, RFC 3597 4).
\* Only for types whose schema has a name.
Lc == <<99>>
QName == <<Lc, Lb, La>>
PtrTo(v) == CASE v = QName -> <<192, 12>> [] v = <<Lb, La>> -> <<192, 14>> [] v = <<La>> -> <<192, 16>> [] v = <<>> -> <<192, 18>>
PtrAble(v) == v \in {QName, <<Lb, La>>, <<La>>, <<>>}
HasName == bad = <<>> /\ t # 41 /\ \E i \in 1 .. Len(Schema(t)) : Schema(t)[i].t = "N"
RECURSIVE EncFieldsP(_, _, _)
EncFieldsP(sc, v, i) ==
  IF i > Len(sc) THEN <<>>
  ELSE (IF sc[i].t = "N" /\ PtrAble(v[i]) THEN PtrTo(v[i]) ELSE EncField(sc[i], v[i], SubSeq(v, 1, i - 1)))
       \o EncFieldsP(sc, v, i + 1)
RdP == EncFieldsP(Schema(t), f, 1)
MsgP == HdrEncode(4660, {"qr"}, 0, 0, 1, 1, 0, 0) \o EncodeNamePlain(QName) \o BE16(255) \o BE16(1)
          \o <<192, 12>> \o BE16(t) \o BE16(1) \o <<0, 0, 1, 44>> \o BE16(Len(RdP)) \o RdP
PacketP == [id |-> 4660, fs |-> 32768, opcode |-> 0, rcode |-> 0, opt |-> <<>>,
            qd |-> <<[name |-> QName, qtype |-> 255, qclass |-> 1, unicast |-> FALSE]>>,
            an |-> <<[RecOf EXCEPT !.name = QName]>>, ns |-> <<>>, ar |-> <<>>]
PtrInverse == HasName => LET d == RefDecode(MsgP) IN d.ok /\ d.exact /\ d.end = Len(MsgP) /\ d.pkt = PacketP

Emit == PrintT(<<"CASE", ToJson([t |-> t, f |-> f, bad |-> bad, msgp |-> IF HasName THEN MsgP ELSE <<>>,
                                 pkt |-> IF bad = <<>> THEN <<PacketOf>> ELSE <<>>,
                                 msg |-> IF bad = <<>> THEN RefEncodePlain(PacketOf) ELSE BadMsg])>>)

\* the whole-message Ref layer agrees with itself on every generated case
MessageInverse ==
  IF bad = <<>> THEN
    LET m == RefEncodePlain(PacketOf)
        d == RefDecode(m) IN
    d.ok /\ d.exact /\ d.end = Len(m) /\ d.pkt = PacketOf /\ PlainReencode(m, d) = m
  ELSE ~RefDecode(BadMsg).ok
=============================================================================
