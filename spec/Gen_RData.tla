------------------------------ MODULE Gen_RData ------------------------------
(* C10 generator and Ref self-consistency: for every record type and every      *)
(* value tuple of its schema's bounded domain, the reference decoder inverts    *)
(* the reference encoder exactly; every rule-breaking encoding is rejected by   *)
(* the reference decoder.  Each (type, values) and each bad encoding is printed *)
(* as a case for the harness.                                                   *)
EXTENDS Domains, TLC, Json

GenTypes == TypedTypes \cup {10, 99, 65280}

VARIABLES t, f, bad
Init == \/ /\ t \in GenTypes /\ f \in Tuples(t) /\ bad = <<>>
        \/ /\ \E e \in BadEncodings : t = e[1] /\ bad = e[2]
           /\ f = <<>>
Next == UNCHANGED <<t, f, bad>>
Spec == Init /\ [][Next]_<<t, f, bad>>

Inverse ==
  IF bad = <<>> THEN
    LET e == EncodeRData(t, f)
        d == DecodeRData(t, e, 0, Len(e)) IN
    d.ok /\ d.exact /\ d.f = f
  ELSE ~DecodeRData(t, bad, 0, Len(bad)).ok

\* the record as it appears in a reference-encoded one-answer response
OwnerName == <<<<111>>, <<97>>>>
RecOf == [name |-> OwnerName, type |-> t, class |-> 1, cf |-> FALSE, ttl |-> <<0, 0, 1, 44>>, rd |-> f]
PacketOf ==
  IF t = 41 THEN   \* OPT lives in the header of the abstract packet
    [id |-> 4660, fs |-> 32768, opcode |-> 0, rcode |-> 0,
     opt |-> <<[udp |-> 1232, version |-> 0, options |-> f[1]]>>, qd |-> <<>>, an |-> <<>>, ns |-> <<>>, ar |-> <<>>]
  ELSE
    [id |-> 4660, fs |-> 32768, opcode |-> 0, rcode |-> 0, opt |-> <<>>, qd |-> <<>>,
     an |-> <<RecOf>>, ns |-> <<>>, ar |-> <<>>]
BadMsg ==
  HdrEncode(4660, {"qr"}, 0, 0, 0, IF t = 41 THEN 0 ELSE 1, 0, IF t = 41 THEN 1 ELSE 0)
    \o EncodeNamePlain(IF t = 41 THEN <<>> ELSE OwnerName) \o BE16(t) \o BE16(1) \o <<0, 0, 0, 0>> \o BE16(Len(bad)) \o bad
    \o <<1, 122, 0, 0, 1, 0, 1, 0, 0, 0, 0, 0, 0>>     \* bytes that look like a following record

Emit == PrintT(<<"CASE", ToJson([t |-> t, f |-> f, bad |-> bad,
                                 pkt |-> IF bad = <<>> THEN <<PacketOf>> ELSE <<>>,
                                 msg |-> IF bad = <<>> THEN RefEncodePlain(PacketOf) ELSE BadMsg])>>)

\* the whole-message Ref layer agrees with itself on every generated case
MessageInverse ==
  IF bad = <<>> THEN
    LET m == RefEncodePlain(PacketOf)
        d == RefDecode(m) IN
    d.ok /\ d.exact /\ d.end = Len(m) /\ d.pkt = PacketOf /\ PlainReencode(m, d) = m
  ELSE ~RefDecode(BadMsg).ok
=============================================================================
