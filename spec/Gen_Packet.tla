------------------------------ MODULE Gen_Packet ------------------------------
(***************************************************************************)
(* The packet-builder part of the "DNS endpoint" specification: the public  *)
(* constructor API of the crate as a state machine over the abstract packet *)
(* (NewQuery / NewReply, SetFlags, RemoveFlags, SetOpcode, SetRcode,        *)
(* SetOpt, Push* ... Finish).  Used as a generator (direction spec -> impl):*)
(* TLC random-walks the machine (-simulate) and prints the abstract packet  *)
(* of every finished behaviour; the harness performs the same construction  *)
(* on the real crate and serialises / parses it.  Names are drawn from a    *)
(* small tree so that owner, question and RDATA names share suffixes.       *)
(*                                                                          *)
(* Invariant checked on every state: the Ref codec round-trips the packet   *)
(* under construction (RefDecode(RefEncodePlain(pkt)) = pkt).               *)
(***************************************************************************)
EXTENDS Domains, Builder, TLC, Json

CONSTANTS MaxEntries

VARIABLES pkt,      \* the abstract packet under construction
          hist,     \* the API calls made so far
          pending,  \* the call chosen for the next step (<<>> = none): drawn in one step, applied in the
                    \* next, so that a random draw is used exactly once
          done
vars == <<pkt, hist, pending, done>>

Lc == <<99>>
Lz == <<122>>
Labels3 == {La, Lb, Lc}
TreeNames ==
  {<<>>} \cup {<<x>> : x \in Labels3} \cup {<<x, y>> : x, y \in Labels3}
  \cup {<<x, y, z>> : x, y, z \in Labels3}
  \cup {<<Lc, Lb, Lz>>, <<Lz, Lc, Lb, La>>, <<<<0, 255, 46, 92>>, Lb, La>>, <<Rep(63, 120), La>>,
        <<<<65>>>>, <<<<99, 98>>, La>>,      \* differs in trailing / leading label; binary; maximal; case; "cb"."a"
        [i \in 1 .. 127 |-> <<97 + (i % 3)>>]}   \* 127 one-byte labels: 255 bytes, the most labels a name can have

TTLs == {<<0, 0, 0, 0>>, <<0, 0, 0, 1>>, <<127, 255, 255, 255>>, <<128, 0, 0, 0>>, <<255, 255, 255, 255>>, <<1, 2, 3, 4>>}

\* replace every embedded name of a generated value tuple by a random tree name
Resub(t, f, x) ==
  LET sc == Schema(t) IN
  [i \in 1 .. Len(sc) |->
     IF sc[i].t = "N" \/ (sc[i].t = "GW" /\ f[i - 2] = <<3>>) THEN RandomElement(TreeNames) ELSE f[i]]

RandRecord(x) ==
  LET t == RandomElement((TypedTypes \ {41}) \cup {10, 99, 65280})
      f0 == RandomElement(Tuples(t) \cup {<<>>})          \* <<>> : empty RDATA
      f == IF f0 = <<>> THEN <<>> ELSE IF RandomElement({0, 1, 2}) = 0 THEN f0 ELSE Resub(t, f0, x) IN
  [name |-> RandomElement(TreeNames), type |-> t, class |-> RandomElement(SupportedClasses),
   cf |-> RandomElement(BOOLEAN), ttl |-> RandomElement(TTLs), rd |-> f]

RandQuestion(x) ==
  [name |-> RandomElement(TreeNames),
   qtype |-> RandomElement(SupportedTypes \cup QTypeSpecials),
   qclass |-> RandomElement(SupportedClasses \cup {255}),
   unicast |-> RandomElement(BOOLEAN)]

OptVals == {[udp |-> u, version |-> v, options |-> o] :
              u \in {0, 512, 1232, 65535}, v \in {0, 1, 128, 255}, o \in Dom(Tlv)}

Entries == Len(pkt.qd) + Len(pkt.an) + Len(pkt.ns) + Len(pkt.ar)
Room == Entries < MaxEntries

\* one API call, chosen by a die (the generator is run with -simulate)
RandOp(x) ==
  LET die == RandomElement(1 .. 26) IN
  CASE die = 1 -> [op |-> "set_flags", v |-> MaskOf(RandomElement(SUBSET FlagNames))]
    [] die = 2 -> [op |-> "remove_flags", v |-> MaskOf(RandomElement(SUBSET FlagNames))]
    [] die = 3 -> [op |-> "set_opcode", v |-> RandomElement(NamedOpcodes)]
    [] die = 4 -> [op |-> "set_rcode", v |-> RandomElement(IF x.opt = <<>> THEN NamedRcodes4 ELSE NamedRcodes)]
    [] die = 5 -> [op |-> "set_opt", v |-> RandomElement(OptVals)]
    \* (a response code above 15 -- BADVERS, or an unassigned one received with an OPT record -- needs the OPT
    \* record to travel in: the packet stays inside the wire-representable domain of C02)
    [] die = 23 -> IF x.rcode \in {16, -1} THEN [op |-> "set_rcode", v |-> 0] ELSE [op |-> "clear_opt", v |-> 0]
    [] die = 24 -> [op |-> "set_id", v |-> RandomElement({0, 1, 255, 256, 4660, 65535})]
    \* into_reply is modelled in Builder.tla but not generated: what it keeps of the header is the crate's
    \* choice, not something C02 states
    [] die = 25 -> [op |-> "set_id", v |-> RandomElement({7, 32768})]
    [] die \in 6 .. 9 /\ Room -> [op |-> "push_q", v |-> RandQuestion(x)]
    [] die \in 10 .. 15 /\ Room -> [op |-> "push_an", v |-> RandRecord(x)]
    [] die \in 16 .. 18 /\ Room -> [op |-> "push_ns", v |-> RandRecord(x)]
    [] die \in 19 .. 22 /\ Room -> [op |-> "push_ar", v |-> RandRecord(x)]
    [] OTHER -> [op |-> "set_flags", v |-> 0]

\* received messages a history may start from: header-only, one question, one answer -- with every named
\* opcode and a non-zero rcode and some flags set, so that later calls must overwrite them
ParsedStarts ==
  {HdrEncode(77, fs, oc, rc, 0, 0, 0, 0) : fs \in {{}, {"qr", "rd"}, {"qr", "aa", "ad"}}, oc \in NamedOpcodes, rc \in {0, 3, 5, 10}}
  \* unassigned RCODEs (11..15) and OPCODEs (3, 7..15), without and with an OPT record (whose TTL carries the
  \* upper rcode bits): a received value the library has no name for must be written back unchanged
  \cup {HdrEncode(80, {"qr"}, oc, rc, 0, 0, 0, 0) : oc \in {0, 3, 7, 15}, rc \in {0, 11, 15}}
  \cup {HdrEncode(81, {"qr", "ra"}, oc, rc, 0, 0, 0, 1)
          \o EncRecord([name |-> <<>>, type |-> 41, class |-> 1232, cf |-> FALSE, ttl |-> <<hi, 0, 0, 0>>, rd |-> <<<<>>>>])
        : oc \in {0, 3}, rc \in {0, 1, 11, 13, 15}, hi \in {0, 1}}
  \cup {HdrEncode(78, {"rd"}, 4, 2, 1, 0, 0, 0) \o EncQuestion([name |-> <<La>>, qtype |-> 1, qclass |-> 1, unicast |-> FALSE])}
  \cup {HdrEncode(79, {"qr"}, 5, 9, 0, 1, 0, 0)
          \o EncRecord([name |-> <<Lb, La>>, type |-> 1, class |-> 1, cf |-> TRUE, ttl |-> <<0, 0, 0, 7>>, rd |-> <<<<10, 0, 0, 1>>>>])}

Init == /\ \/ \E id \in {0, 4660, 65535}, c \in {"new_query", "new_reply"} :
                /\ hist = <<[op |-> c, v |-> id]>>
                /\ pkt = ApplyOp(BlankPacket(0, 0), [op |-> c, v |-> id])
           \/ \E m \in ParsedStarts :
                /\ hist = <<[op |-> "parse", v |-> m]>>
                /\ pkt = ApplyOp(BlankPacket(0, 0), [op |-> "parse", v |-> m])
        /\ pending = <<>> /\ done = FALSE

Choose == ~done /\ pending = <<>> /\ pending' = <<RandOp(pkt)>> /\ UNCHANGED <<pkt, hist, done>>
Apply == /\ ~done /\ pending # <<>>
         /\ pkt' = ApplyOp(pkt, pending[1]) /\ hist' = Append(hist, pending[1]) /\ pending' = <<>>
         /\ UNCHANGED done
Finish == ~done /\ pending = <<>> /\ RandomElement(1 .. 10) = 1 /\ done' = TRUE /\ UNCHANGED <<pkt, hist, pending>>

Next == Choose \/ Apply \/ Finish
Spec == Init /\ [][Next]_vars

\* the transition function and the history agree (the model's own consistency)
HistoryConsistent == LET r == RunOps(hist) IN r[Len(r)] = pkt

RefRoundTrip ==
  LET m == RefEncodePlain(pkt)
      d == RefDecode(m) IN
  \* (a packet parsed from a message with an unassigned opcode / rcode has no constructor-level equivalent)
  (pkt.opcode # -1 /\ pkt.rcode # -1) => (Encodable(pkt) /\ d.ok /\ d.exact /\ d.end = Len(m) /\ d.pkt = pkt)

Emit == done => PrintT(<<"CASE", ToJson([pkt |-> pkt, hist |-> hist])>>)
=============================================================================
