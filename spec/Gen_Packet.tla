------------------------------ MODULE Gen_Packet ------------------------------
(***************************************************************************)
(* The packet-builder part of the "DNS endpoint" specification: the public  *)
(* constructor API of the crate as a state machine over the abstract packet *)
(* (NewQuery / NewReply, SetFlags, RemoveFlags, SetOpcode, SetRcode,        *)
(* SetOpt, Push* ... Finish).  Used as a generator (direction spec -> impl):*)
(* TLC random-walks the machine (-simulate) and prints the abstract packet  *)
(* of every finished behaviour; the harness performs the same construction  *)
(* on the real crate and serialises / parses it.  Names are drawn from a    *)
(* small tree so that owner, question and RDATA names share suffixes.       *)
(*                                                                          *)
(* Invariant checked on every state: the Ref codec round-trips the packet   *)
(* under construction (RefDecode(RefEncodePlain(pkt)) = pkt).               *)
(***************************************************************************)
EXTENDS Domains, TLC, Json

CONSTANTS MaxEntries

VARIABLES pkt, done
vars == <<pkt, done>>

Lc == <<99>>
Lz == <<122>>
Labels3 == {La, Lb, Lc}
TreeNames ==
  {<<>>} \cup {<<x>> : x \in Labels3} \cup {<<x, y>> : x, y \in Labels3}
  \cup {<<x, y, z>> : x, y, z \in Labels3}
  \cup {<<Lc, Lb, Lz>>, <<Lz, Lc, Lb, La>>, <<<<0, 255, 46, 92>>, Lb, La>>, <<Rep(63, 120), La>>,
        <<<<65>>>>, <<<<99, 98>>, La>>}      \* differs in trailing / leading label; binary; maximal; case; "cb"."a"

TTLs == {<<0, 0, 0, 0>>, <<0, 0, 0, 1>>, <<127, 255, 255, 255>>, <<128, 0, 0, 0>>, <<255, 255, 255, 255>>, <<1, 2, 3, 4>>}

\* replace every embedded name of a generated value tuple by a random tree name
Resub(t, f, x) ==
  LET sc == Schema(t) IN
  [i \in 1 .. Len(sc) |->
     IF sc[i].t = "N" \/ (sc[i].t = "GW" /\ f[i - 2] = <<3>>) THEN RandomElement(TreeNames) ELSE f[i]]

RandRecord(x) ==
  LET t == RandomElement((TypedTypes \ {41}) \cup {10, 99, 65280})
      f0 == RandomElement(Tuples(t) \cup {<<>>})          \* <<>> : empty RDATA
      f == IF f0 = <<>> THEN <<>> ELSE IF RandomElement({0, 1, 2}) = 0 THEN f0 ELSE Resub(t, f0, x) IN
  [name |-> RandomElement(TreeNames), type |-> t, class |-> RandomElement(SupportedClasses),
   cf |-> RandomElement(BOOLEAN), ttl |-> RandomElement(TTLs), rd |-> f]

RandQuestion(x) ==
  [name |-> RandomElement(TreeNames),
   qtype |-> RandomElement(SupportedTypes \cup QTypeSpecials),
   qclass |-> RandomElement(SupportedClasses \cup {255}),
   unicast |-> RandomElement(BOOLEAN)]

OptVals == {[udp |-> u, version |-> v, options |-> o] :
              u \in {0, 512, 1232, 65535}, v \in {0, 1, 128, 255}, o \in Dom(Tlv)}

Blank(id, fs) == [id |-> id, fs |-> fs, opcode |-> 0, rcode |-> 0, opt |-> <<>>,
                  qd |-> <<>>, an |-> <<>>, ns |-> <<>>, ar |-> <<>>]

Init == /\ \E id \in {0, 4660, 65535} : pkt \in {Blank(id, 0), Blank(id, 32768)}   \* new_query / new_reply
        /\ done = FALSE

Entries == Len(pkt.qd) + Len(pkt.an) + Len(pkt.ns) + Len(pkt.ar)

RandFlags(x) == RandomElement(SUBSET FlagNames)
SetFlags == pkt' = [pkt EXCEPT !.fs = MaskOf(HdrFlagSet(@) \cup RandFlags(pkt))]
RemoveFlags == pkt' = [pkt EXCEPT !.fs = MaskOf(HdrFlagSet(@) \ RandFlags(pkt))]
SetOpcode == pkt' = [pkt EXCEPT !.opcode = RandomElement(NamedOpcodes)]
SetRcode == pkt' = [pkt EXCEPT !.rcode = RandomElement(IF pkt.opt = <<>> THEN NamedRcodes4 ELSE NamedRcodes)]
SetOpt == pkt' = [pkt EXCEPT !.opt = <<RandomElement(OptVals)>>]
PushQ == Entries < MaxEntries /\ pkt' = [pkt EXCEPT !.qd = Append(@, RandQuestion(pkt))]
PushAn == Entries < MaxEntries /\ pkt' = [pkt EXCEPT !.an = Append(@, RandRecord(pkt))]
PushNs == Entries < MaxEntries /\ pkt' = [pkt EXCEPT !.ns = Append(@, RandRecord(pkt))]
PushAr == Entries < MaxEntries /\ pkt' = [pkt EXCEPT !.ar = Append(@, RandRecord(pkt))]

\* one API call per step, chosen by a die (the generator is run with -simulate)
Build ==
  /\ ~done
  /\ LET die == RandomElement(1 .. 24) IN
     CASE die = 1 -> SetFlags [] die = 2 -> RemoveFlags [] die = 3 -> SetOpcode [] die = 4 -> SetRcode
       [] die = 5 -> SetOpt [] die \in 6 .. 9 -> PushQ [] die \in 10 .. 15 -> PushAn
       [] die \in 16 .. 18 -> PushNs [] die \in 19 .. 22 -> PushAr [] OTHER -> UNCHANGED pkt
  /\ UNCHANGED done
Finish == ~done /\ RandomElement(1 .. 10) = 1 /\ done' = TRUE /\ UNCHANGED pkt

Next == Build \/ Finish
Spec == Init /\ [][Next]_vars

RefRoundTrip ==
  LET m == RefEncodePlain(pkt)
      d == RefDecode(m) IN
  Encodable(pkt) /\ d.ok /\ d.exact /\ d.end = Len(m) /\ d.pkt = pkt

Emit == done => PrintT(<<"CASE", ToJson([pkt |-> pkt])>>)
=============================================================================
