------------------------------- MODULE Builder -------------------------------
(***************************************************************************)
(* The packet-builder API of the crate as a deterministic transition        *)
(* function on the abstract packet: ApplyOp(p, op) is the packet after one  *)
(* public call.  Shared by the generator (Gen_Packet random-walks it) and   *)
(* by the trace specification (every recorded API history of the real       *)
(* Packet is compared with it state by state).                              *)
(*                                                                          *)
(*   new_query(id) / new_reply(id)          Packet::new_query / new_reply   *)
(*   parse(bytes)                           Packet::parse                   *)
(*   set_id(v)                              Packet::set_id                  *)
(*   set_flags(mask) / remove_flags(mask)   Packet::set_flags / remove_flags*)
(*   set_opcode(v) / set_rcode(v)           *opcode_mut() / *rcode_mut()    *)
(*   set_opt(o) / clear_opt                 *opt_mut() = Some(o) / None     *)
(*   push_q(q) push_an(r) push_ns(r) push_ar(r)   the public section vectors *)
(*   into_reply                             Packet::into_reply              *)
(***************************************************************************)
EXTENDS Message

BlankPacket(id, fs) == [id |-> id, fs |-> fs, opcode |-> 0, rcode |-> 0, opt |-> <<>>,
                        qd |-> <<>>, an |-> <<>>, ns |-> <<>>, ar |-> <<>>]

ApplyOp(p, o) ==
  CASE o.op = "new_query" -> BlankPacket(o.v, 0)
    [] o.op = "new_reply" -> BlankPacket(o.v, 32768)
    \* a packet obtained from the parser (a proxy that edits and re-emits): what the reference decoder decodes
    [] o.op = "parse" -> RefDecode(o.v).pkt
    [] o.op = "set_id" -> [p EXCEPT !.id = o.v]
    [] o.op = "set_flags" -> [p EXCEPT !.fs = MaskOf(HdrFlagSet(@) \cup HdrFlagSet(o.v))]
    [] o.op = "remove_flags" -> [p EXCEPT !.fs = MaskOf(HdrFlagSet(@) \ HdrFlagSet(o.v))]
    [] o.op = "set_opcode" -> [p EXCEPT !.opcode = o.v]
    [] o.op = "set_rcode" -> [p EXCEPT !.rcode = o.v]
    [] o.op = "set_opt" -> [p EXCEPT !.opt = <<o.v>>]
    [] o.op = "clear_opt" -> [p EXCEPT !.opt = <<>>]
    [] o.op = "push_q" -> [p EXCEPT !.qd = Append(@, o.v)]
    [] o.op = "push_an" -> [p EXCEPT !.an = Append(@, o.v)]
    [] o.op = "push_ns" -> [p EXCEPT !.ns = Append(@, o.v)]
    [] o.op = "push_ar" -> [p EXCEPT !.ar = Append(@, o.v)]
    \* into_reply keeps id, opcode and the sections; everything else is that of a fresh reply
    [] o.op = "into_reply" -> [p EXCEPT !.fs = 32768, !.rcode = 0, !.opt = <<>>]

\* the sequence of packets after each call of a history (hist[1] is a constructor)
RECURSIVE RunOpsFrom(_, _, _)
RunOpsFrom(p, hist, i) ==
  IF i > Len(hist) THEN <<>>
  ELSE LET q == ApplyOp(p, hist[i]) IN <<q>> \o RunOpsFrom(q, hist, i + 1)
RunOps(hist) == RunOpsFrom(BlankPacket(0, 0), hist, 1)
=============================================================================
