SPECIFICATION Spec
CONSTANTS
  Mode = "escape"
  L = 5
INVARIANT EscapeInverse
INVARIANT Emit
CHECK_DEADLOCK FALSE
