----------------------------- MODULE Gen_Compress -----------------------------
(***************************************************************************)
(* ValidEncodings: a nondeterministic encoder that writes a small message   *)
(* with EVERY admissible compression layout (RFC 1035 4.1.4): at each name, *)
(* spell out any number of leading labels and then either end with the root *)
(* label or point to any earlier offset at which the remaining labels begin *)
(* (a label start, a root label, or an earlier pointer).  These are foreign *)
(* layouts a third-party encoder may produce and the crate itself never     *)
(* does.  TLC enumerates them all (C11 generator) and checks on each that   *)
(* the reference decoder recovers the intended packet.                      *)
(***************************************************************************)
EXTENDS Domains, TLC, Json

CONSTANT Shape     \* which template
VARIABLES out, avail, k, opens, done
vars == <<out, avail, k, opens, done>>

Lc == <<99>>
N1 == <<Lb, La>>            \* b.a
N2 == <<Lc, Lb, La>>        \* c.b.a
N3 == <<La>>                \* a

\* pieces: <<"raw", bytes>> | <<"name", labels>> | <<"open">> (RDLENGTH placeholder) | <<"close">>
Template ==
  CASE Shape = 1 ->
    <<<<"raw", HdrEncode(21, {"qr", "aa"}, 0, 0, 1, 1, 1, 0)>>,
      <<"name", N1>>, <<"raw", <<0, 15, 0, 1>>>>,                                    \* question b.a MX IN
      <<"name", N2>>, <<"raw", <<0, 15, 0, 1, 0, 0, 0, 9>>>>, <<"open">>,             \* c.b.a MX
        <<"raw", <<0, 5>>>>, <<"name", N1>>, <<"close">>,
      <<"name", N3>>, <<"raw", <<0, 2, 0, 1, 0, 0, 0, 9>>>>, <<"open">>,              \* a NS c.b.a
        <<"name", N2>>, <<"close">>>>
    [] Shape = 2 ->
    <<<<"raw", HdrEncode(22, {"qr"}, 0, 0, 0, 2, 0, 1)>>,
      <<"name", <<>>>>, <<"raw", <<0, 6, 0, 1, 0, 0, 0, 9>>>>, <<"open">>,            \* . SOA b.a a
        <<"name", N1>>, <<"name", N3>>, <<"raw", Ramp(20)>>, <<"close">>,
      <<"name", N1>>, <<"raw", <<0, 33, 128, 1, 0, 0, 0, 9>>>>, <<"open">>,           \* b.a SRV (cache-flush) -> a
        <<"raw", <<0, 1, 0, 2, 0, 80>>>>, <<"name", N3>>, <<"close">>,
      <<"name", N1>>, <<"raw", <<0, 99, 0, 1, 0, 0, 0, 9, 0, 0>>>>>>                   \* b.a TYPE99 empty RDATA

Expected ==
  CASE Shape = 1 ->
    [id |-> 21, fs |-> MaskOf({"qr", "aa"}), opcode |-> 0, rcode |-> 0, opt |-> <<>>,
     qd |-> <<[name |-> N1, qtype |-> 15, qclass |-> 1, unicast |-> FALSE]>>,
     an |-> <<[name |-> N2, type |-> 15, class |-> 1, cf |-> FALSE, ttl |-> <<0, 0, 0, 9>>, rd |-> <<<<0, 5>>, N1>>]>>,
     ns |-> <<[name |-> N3, type |-> 2, class |-> 1, cf |-> FALSE, ttl |-> <<0, 0, 0, 9>>, rd |-> <<N2>>]>>,
     ar |-> <<>>]
    [] Shape = 2 ->
    [id |-> 22, fs |-> MaskOf({"qr"}), opcode |-> 0, rcode |-> 0, opt |-> <<>>, qd |-> <<>>,
     an |-> <<[name |-> <<>>, type |-> 6, class |-> 1, cf |-> FALSE, ttl |-> <<0, 0, 0, 9>>,
               rd |-> <<N1, N3, <<1, 2, 3, 4>>, <<5, 6, 7, 8>>, <<9, 10, 11, 12>>, <<13, 14, 15, 16>>, <<17, 18, 19, 20>>>>],
              [name |-> N1, type |-> 33, class |-> 1, cf |-> TRUE, ttl |-> <<0, 0, 0, 9>>,
               rd |-> <<<<0, 1>>, <<0, 2>>, <<0, 80>>, N3>>]>>,
     ns |-> <<>>,
     ar |-> <<[name |-> N1, type |-> 99, class |-> 1, cf |-> FALSE, ttl |-> <<0, 0, 0, 9>>, rd |-> <<>>]>>]

Init == out = <<>> /\ avail = {} /\ k = 1 /\ opens = <<>> /\ done = FALSE

Piece == Template[k]

\* spell out labels 1..i of the name in full, recording where each suffix begins
RECURSIVE Spell(_, _, _, _)
Spell(labels, i, o, av) ==   \* returns <<bytes, avail>> after writing labels[1..i] starting at offset Len(o)
  IF i = 0 THEN <<o, av>>
  ELSE LET prev == Spell(labels, i - 1, o, av) IN
       <<prev[1] \o <<Len(labels[i])>> \o labels[i],
         prev[2] \cup {<<Len(prev[1]), SubSeq(labels, i, Len(labels))>>}>>

WriteRaw == /\ Piece[1] = "raw" /\ out' = out \o Piece[2] /\ UNCHANGED <<avail, opens>>
WriteOpen == /\ Piece[1] = "open" /\ out' = out \o <<0, 0>> /\ opens' = Append(opens, Len(out)) /\ UNCHANGED avail
WriteClose == /\ Piece[1] = "close"
              /\ LET at == opens[Len(opens)]
                     len == Len(out) - at - 2 IN
                 out' = [out EXCEPT ![at + 1] = len \div 256, ![at + 2] = len % 256]
              /\ opens' = SubSeq(opens, 1, Len(opens) - 1) /\ UNCHANGED avail
WriteName ==
  /\ Piece[1] = "name"
  /\ \E i \in 0 .. Len(Piece[2]) :
       LET sp == Spell(Piece[2], i, out, avail)
           rest == SubSeq(Piece[2], i + 1, Len(Piece[2])) IN
       \/ /\ i = Len(Piece[2])                                  \* end with the root label
          /\ out' = sp[1] \o <<0>>
          /\ avail' = sp[2] \cup {<<Len(sp[1]), <<>>>>}
       \/ \E t \in {a \in avail : a[2] = rest} :                \* or point to where the rest begins
            /\ out' = sp[1] \o <<192 + t[1] \div 256, t[1] % 256>>
            /\ avail' = sp[2] \cup {<<Len(sp[1]), rest>>}
  /\ UNCHANGED opens

Step == /\ ~done /\ k <= Len(Template)
        /\ (WriteRaw \/ WriteOpen \/ WriteClose \/ WriteName)
        /\ k' = k + 1 /\ UNCHANGED done
Finish == ~done /\ k > Len(Template) /\ done' = TRUE /\ UNCHANGED <<out, avail, k, opens>>
Next == Step \/ Finish
Spec == Init /\ [][Next]_vars

\* every admissible layout decodes to the intended packet (Ref self-consistency; C11 spec-level)
AllDecode == done => LET d == RefDecode(out) IN d.ok /\ d.exact /\ d.end = Len(out) /\ d.pkt = Expected
Emit == done => PrintT(<<"CASE", ToJson([msg |-> out, shape |-> Shape])>>)
=============================================================================
