----------------------------- MODULE TraceBase -----------------------------
(***************************************************************************)
(* Infrastructure shared by all trace specifications: the recorded trace,   *)
(* the cursor, non-blocking property rules and structural acceptance.       *)
(*                                                                          *)
(* A trace is an ndjson file (env TRACE).  Every line is one event          *)
(* [ev |-> kind, ...].  The trace specification consumes one event per      *)
(* step; a structural mismatch blocks (the trace is not a behaviour of the  *)
(* specification at all: tool error), a property conjunct that fails is     *)
(* reported by name and the event is still consumed, so that one pass       *)
(* reports every violation.                                                 *)
(***************************************************************************)
EXTENDS Naturals, Integers, Sequences, FiniteSets, TLC, TLCExt, Json, IOUtils

CONSTANT RulesOn       \* names of the property rules that are enabled in this run

Rec == ndJsonDeserialize(IOEnv.TRACE)

\* non-blocking rule: TRUE either way, prints when an enabled rule is violated
\* (IF-THEN-ELSE, not disjunction: inside an action TLC would explore both disjuncts)
Rule(l, name, cond, detail) ==
  IF name \notin RulesOn THEN TRUE
  ELSE IF cond THEN TRUE
  ELSE PrintT("RULE-FAIL " \o ToJson(<<l, name, detail>>))

Has(r, f) == f \in DOMAIN r
=============================================================================
