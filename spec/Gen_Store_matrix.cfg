SPECIFICATION Spec
CONSTANTS
  Mode = "matrix"
  MaxSteps = 0
INVARIANT Emit
CHECK_DEADLOCK FALSE
