SPECIFICATION TraceSpec
CONSTANTS
  MaxLabel = 63
  MaxName = 255
  PtrLimit = 16383
  MaxNames = 0
  Guard = TRUE
  Relative = TRUE
  Origins = {0}
POSTCONDITION Accepted
CHECK_DEADLOCK FALSE
