------------------------------ MODULE Gen_Discover ------------------------------
(* C15 generator: sequences of announcements from several peers -- instances of the  *)
(* watched service and of a foreign service, the discoverer's own instance echoed     *)
(* back, the service PTR itself, unrelated names -- over instance descriptions with   *)
(* 0..3 addresses (IPv4/IPv6), 0..2 ports and attribute maps with absent / empty /    *)
(* non-empty values.  TLC random-walks and prints each sequence; mode "escape"        *)
(* enumerates every string up to length L over {a . \ e-acute} for the escaping pair. *)
EXTENDS Mdns, TLC, Json, SequencesExt

CONSTANTS Mode, L
VARIABLES anns, s, done
vars == <<anns, s, done>>

Watched == <<<<95, 115, 118, 99>>, <<95, 116, 99, 112>>, <<108, 111, 99, 97, 108>>>>      \* _svc._tcp.local
Other == <<<<95, 115, 118, 99, 50>>, <<95, 116, 99, 112>>, <<108, 111, 99, 97, 108>>>>     \* _svc2._tcp.local
\* a b ab p1 me (me = own) and A, Ab, Me: names that differ from another one only in letter case are different
\* instances (and Me is not the discoverer's own instance)
InstNames == {<<97>>, <<98>>, <<97, 98>>, <<112, 49>>, <<109, 101>>, <<65>>, <<65, 98>>, <<77, 101>>,
              <<99, 233>>, <<252, 98, 101, 114>>}          \* c + e-acute, u-umlaut + ber: names are Unicode text
Ips == {<<4, 10, 0, 0, 1>>, <<4, 10, 0, 0, 2>>, <<6, 0, 0, 0, 0, 0, 0, 0, 0, 0, 0, 0, 0, 0, 0, 0, 1>>, <<6, 0, 0, 0, 0, 0, 0, 0, 0, 0, 0, 255, 255, 10, 0, 0, 1>>}
Ports == {80, 8080, 0, 65535}     \* (0 and 65535 are ports like any other)
\* k, path, ab, and keys / values with leading, trailing and lone spaces (attribute text is carried verbatim)
AKeys == {<<107>>, <<112, 97, 116, 104>>, <<97, 98>>, <<107, 32>>, <<32, 97, 98>>}
AVals == {<<"none">>, <<"some", <<>>>>, <<"some", <<118>>>>, <<"some", <<120, 61, 121>>>>, <<"some", <<32, 118, 32>>>>, <<"some", <<32>>>>}

\* every instance name is announced at most once per history (what a re-announcement with a different
\* description should merge to is not specified by the property)
Used(x) == {x[i].inst.name : i \in 1 .. Len(x)}
RandInst(x) ==
  LET ks == RandomElement(SUBSET AKeys)
      free == InstNames \ Used(x) IN
  [name |-> IF free = {} THEN <<122, 122>> ELSE RandomElement(free),
   ips |-> SetToSeq(RandomElement(SUBSET Ips)),
   ports |-> SetToSeq(RandomElement(SUBSET Ports)),
   \* now and then an entry at the size limit of a character-string: "z=" + 253 bytes = 255, "y=" + 252 = 254
   attrs |-> SetToSeq({<<k, RandomElement(AVals)>> : k \in ks}
                      \cup (CASE RandomElement(1 .. 8) = 1 -> {<<<<122>>, <<"some", [i \in 1 .. 253 |-> 121]>>>>}
                              [] RandomElement(1 .. 8) = 2 -> {<<<<121>>, <<"some", [i \in 1 .. 252 |-> 122]>>>>}
                              [] OTHER -> {}))]

RandAnn(x) ==
  LET die == RandomElement(1 .. 10) IN
  CASE die <= 5 -> [kind |-> "instance", service |-> Watched, inst |-> RandInst(x)]
    \* the same, but the packet's additional section also carries records of foreign names (a host, an
    \* instance of another service, the service name itself): they must not leak into the reported instance
    [] die <= 7 -> [kind |-> "instance+foreign", service |-> Watched, inst |-> RandInst(x)]
    [] die = 8 -> IF RandomElement({0, 1}) = 0 THEN [kind |-> "instance", service |-> Other, inst |-> RandInst(x)]
                  \* the peer says goodbye (its records with TTL 0 / with the cache-flush bit) and then announces the
                  \* same instance again: it was advertised last, so it must be reported
                  ELSE [kind |-> RandomElement({"goodbye-then-instance", "flush-then-instance"}), service |-> Watched, inst |-> RandInst(x)]
    [] die = 9 -> [kind |-> "service-ptr", service |-> Watched, inst |-> RandInst(x)]
    [] OTHER -> [kind |-> "unrelated", service |-> Watched, inst |-> RandInst(x)]

Init == anns = <<>> /\ done = FALSE
        /\ IF Mode = "escape" THEN s \in UNION {[1 .. k -> {97, 46, 92, 233}] : k \in 0 .. L} ELSE s = <<>>
Step == /\ Mode = "announce" /\ ~done /\ Len(anns) < 5
        /\ anns' = Append(anns, RandAnn(anns))
        /\ UNCHANGED <<s, done>>
Finish == /\ Mode = "announce" /\ ~done /\ Len(anns) >= 1 /\ RandomElement(1 .. 4) = 1
          /\ done' = TRUE /\ UNCHANGED <<anns, s>>
Next == Step \/ Finish
Spec == Init /\ [][Next]_vars

EscapeInverse == Mode = "escape" => Unescape(Escape(s)) = s
Emit == IF Mode = "escape" THEN PrintT(<<"CASE", ToJson([mode |-> "escape", s |-> s, anns |-> <<>>])>>)
        ELSE done => PrintT(<<"CASE", ToJson([mode |-> "announce", s |-> <<>>, anns |-> anns,
                                              watched |-> Watched, own |-> <<109, 101>>])>>)
=============================================================================
