SPECIFICATION Spec
CONSTANTS
  Partial <- PinnedPartial
  MaxDatagrams = 3
INVARIANT ReceiverAlive
INVARIANT LockClean
INVARIANT AppUsable
CHECK_DEADLOCK FALSE
