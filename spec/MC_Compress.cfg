SPECIFICATION Spec
CONSTANTS
  MaxLabel = 63
  MaxName = 255
  PtrLimit = 15
  MaxNames = 3
  Guard = TRUE
  Relative = TRUE
  Origins = {0, 3}
INVARIANT Transparent
INVARIANT NotLonger
INVARIANT PointerRules
CHECK_DEADLOCK FALSE
