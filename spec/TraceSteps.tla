------------------------------ MODULE TraceSteps ------------------------------
(***************************************************************************)
(* Step-level binding of the Impl model of the name-parsing loop            *)
(* (MC_NameWire) to the code: the crate's Name::parse records one event per *)
(* loop arm (hook verif::record), and this trace specification accepts a    *)
(* recorded run only if every event is the model action of that name with   *)
(* exactly the logged successor values (cursor of the enclosing element,    *)
(* read position, accumulated name size).  One TLC step per logged event,   *)
(* in the style of the two-phase-commit trace specification.                *)
(*                                                                          *)
(* This binds the *model of the algorithm* to the code.  It never decides a *)
(* property: a refactoring that keeps the observable behaviour may change   *)
(* the steps; a rejection here is reported as model drift (./check binding),*)
(* a prompt to update MC_NameWire so that it keeps describing the code.     *)
(***************************************************************************)
EXTENDS MC_NameWire, Json, IOUtils, TLCExt

Rec == ndJsonDeserialize(IOEnv.TRACE)
VARIABLE l
tvars == <<vars, l>>

Ev == Rec[l]
IsEvent(k) == l <= Len(Rec) /\ Ev.ev = k /\ l' = l + 1

TraceInit == /\ l = 1 /\ buf = <<>> /\ start = 0 /\ pos = 0 /\ ptr = 0 /\ following = FALSE /\ size = 0
             /\ labels = <<>> /\ hops = 0 /\ status = "idle"

\* a new call: Name::parse(buf, at)
TraceBegin == /\ IsEvent("NameBegin") /\ status \in {"idle", "ok", "err"}
              /\ buf' = Ev.b /\ start' = Ev.at /\ pos' = Ev.at /\ ptr' = Ev.at
              /\ following' = FALSE /\ size' = 0 /\ labels' = <<>> /\ hops' = 0 /\ status' = "run"

\* one loop arm: the model action of that name, constrained to the logged successor values
TraceStep ==
  /\ IsEvent("NameStep")
  /\ CASE Ev.arm = 1 -> ReadLabel
       [] Ev.arm = 2 -> FollowPointer
       [] Ev.arm = 3 -> Terminate
  /\ pos' = Ev.pos /\ ptr' = Ev.ptr /\ size' = Ev.size
  /\ status' \in {"run", "ok"}

\* the call returned: ok requires the model to have terminated; an error requires an erroring arm to be enabled
TraceEnd ==
  /\ IsEvent("NameEnd")
  /\ IF Ev.out = "ok" THEN status = "ok" /\ UNCHANGED vars
     ELSE /\ status = "run"
          /\ (FailTop \/ FollowPointer \/ ReadLabel)
          /\ status' = "err"

TraceNext == TraceBegin \/ TraceStep \/ TraceEnd
TraceSpec == TraceInit /\ [][TraceNext]_tvars

Accepted ==
  IF TLCGet("stats").diameter - 1 = Len(Rec) THEN PrintT(<<"TRACE-ACCEPTED", Len(Rec)>>)
  ELSE PrintT("MODEL-DRIFT-AT " \o ToJson(<<TLCGet("stats").diameter, Rec[TLCGet("stats").diameter]>>)) /\ FALSE
=============================================================================
