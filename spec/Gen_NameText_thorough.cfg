SPECIFICATION Spec
CONSTANTS
  Symbols = {97, 65, 49, 45, 95, 46, 92, 233, 32}
  L = 6
INVARIANT RefIdentities
INVARIANT Emit
CHECK_DEADLOCK FALSE
