---------------------------- MODULE Gen_Resolver ----------------------------
(* Scripts for the one-shot resolver: every sequence of up to L datagrams over a *)
(* small alphabet of responses (right / wrong name, A / AAAA / SRV / TXT, with   *)
(* and without additionals, a query, a foreign id, no answers), for both entry   *)
(* points.  TLC checks on each that the model never returns what nobody offered  *)
(* and prints the script for the harness, which plays it to the real resolver.   *)
EXTENDS Resolver, TLC, Json

CONSTANT L
VARIABLES mode, script

Rec(n, t, v) == [n |-> n, t |-> t, v |-> v]
Resp(qr, id, an, ar) == [qr |-> qr, id |-> id, an |-> an, ar |-> ar]
Alphabet ==
  {Resp(TRUE, 0, <<Rec("q", "A", 1)>>, <<>>),
   Resp(TRUE, 0, <<Rec("q", "AAAA", 2)>>, <<>>),
   Resp(TRUE, 0, <<Rec("o", "A", 3)>>, <<>>),
   Resp(FALSE, 0, <<Rec("q", "A", 4)>>, <<>>),
   Resp(TRUE, 7, <<Rec("q", "A", 5)>>, <<>>),
   Resp(TRUE, 0, <<Rec("o", "A", 6), Rec("q", "A", 7)>>, <<>>),
   Resp(TRUE, 0, <<Rec("q", "TXT", 8)>>, <<>>),
   Resp(TRUE, 0, <<Rec("q", "SRV", 80)>>, <<Rec("q", "A", 9)>>),
   Resp(TRUE, 0, <<Rec("q", "SRV", 81)>>, <<>>),
   Resp(TRUE, 0, <<Rec("q", "SRV", 82)>>, <<Rec("o", "A", 10), Rec("q", "AAAA", 11)>>),
   Resp(TRUE, 0, <<>>, <<Rec("q", "A", 12)>>),
   Resp(TRUE, 0, <<Rec("o", "SRV", 83), Rec("q", "SRV", 84)>>, <<Rec("q", "A", 13)>>)}

Init == mode \in {"addr", "addr_port"} /\ script \in UNION {[1 .. k -> Alphabet] : k \in 1 .. L}
Next == UNCHANGED <<mode, script>>
Spec == Init /\ [][Next]_<<mode, script>>

ModelSound == Sound(mode, script)
Emit == PrintT(<<"CASE", ToJson([mode |-> mode, script |-> script, expect |-> Outcome(mode, script)])>>)
=============================================================================
