------------------------------- MODULE Header -------------------------------
(***************************************************************************)
(* RFC 1035 section 4.1.1 (with the AD/CD bits of RFC 2535/4035): the DNS   *)
(* message header.  Written from the RFC only; this is the Ref layer for    *)
(* C08 and the header part of C01/C02/C04/C09/C11.                          *)
(*                                                                          *)
(*    0  1  2  3  4  5  6  7  8  9 10 11 12 13 14 15   (RFC bit numbering)  *)
(*  |QR|  OPCODE   |AA|TC|RD|RA| Z|AD|CD|   RCODE   |                       *)
(*                                                                          *)
(* Below, bit k means 2^k of the 16-bit flags word (k = 15 - RFC number).   *)
(***************************************************************************)
EXTENDS Naturals, Integers, Sequences, FiniteSets

Pow2(k) == 2^k
Bit(w, k) == ((w \div Pow2(k)) % 2) = 1

\* the seven named flag bits and the reserved Z bit
FlagNames == {"qr", "aa", "tc", "rd", "ra", "ad", "cd"}
FlagBit(n) == CASE n = "qr" -> 15 [] n = "aa" -> 10 [] n = "tc" -> 9 [] n = "rd" -> 8
                [] n = "ra" -> 7 [] n = "ad" -> 5 [] n = "cd" -> 4
ZBit == 6

NamedOpcodes == {0, 1, 2, 4, 5}
NamedRcodes4 == 0 .. 10               \* what the low 4 bits can name
NamedRcodes == (0 .. 10) \cup {16}    \* with EDNS: BADVERS

\* what a caller can observe of a code whose enum collapses unnamed values
Obs(n, named) == IF n \in named THEN n ELSE -1

\* flags word -> fields
HdrOpcode(w) == (w \div 2048) % 16
HdrRcode(w) == w % 16
HdrFlagSet(w) == {n \in FlagNames : Bit(w, FlagBit(n))}
HdrZ(w) == Bit(w, ZBit)

\* fields -> flags word (z = 0)
B(S, n) == IF n \in S THEN Pow2(FlagBit(n)) ELSE 0
SumBits(S) == B(S, "qr") + B(S, "aa") + B(S, "tc") + B(S, "rd") + B(S, "ra") + B(S, "ad") + B(S, "cd")
FlagWord(fs, opcode, rcode) == SumBits(fs) + opcode * 2048 + (rcode % 16)

\* a 16-bit mask containing only named flag bits <-> set of names
MaskOf(fs) == SumBits(fs)

U16At(b, i) == b[i] * 256 + b[i + 1]     \* 1-based index of the high byte
BE16(n) == <<(n \div 256) % 256, n % 256>>

\* 12 header bytes -> record; caller guarantees Len(b) >= 12
HdrDecode(b) ==
  LET w == U16At(b, 3) IN
  [id |-> U16At(b, 1), w |-> w, fs |-> HdrFlagSet(w), z |-> HdrZ(w),
   opcode |-> HdrOpcode(w), rcode |-> HdrRcode(w),
   qd |-> U16At(b, 5), an |-> U16At(b, 7), ns |-> U16At(b, 9), ar |-> U16At(b, 11)]

HdrEncode(id, fs, opcode, rcode, qd, an, ns, ar) ==
  BE16(id) \o BE16(FlagWord(fs, opcode, rcode)) \o BE16(qd) \o BE16(an) \o BE16(ns) \o BE16(ar)

\* flag-set algebra of the packet API
FlagsSet(a, b) == a \cup b
FlagsRemove(a, b) == a \ b
FlagsHas(a, b) == b \subseteq a
=============================================================================
