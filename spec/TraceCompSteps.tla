---------------------------- MODULE TraceCompSteps ----------------------------
(***************************************************************************)
(* Step-level binding of the Impl model of the compressing name writer      *)
(* (MC_Compress) to the code: Name::compress_append / plain_append record   *)
(* one hook event per name and per loop arm while a packet is serialised    *)
(* with compression; this trace specification accepts a recorded run only   *)
(* if every event is the corresponding model action on the model's suffix   *)
(* table: a pointer is emitted exactly when the model finds the suffix and  *)
(* with exactly the model's value; a label is emitted exactly when the      *)
(* model does not find it, and the table is extended (or not: 14-bit guard) *)
(* exactly as the model says.  The byte output is not tracked here (it is   *)
(* judged by C03/C07); what is bound is the table algorithm.                *)
(* Diagnostic only (./check binding), like TraceSteps.                      *)
(***************************************************************************)
EXTENDS MC_Compress, Json, IOUtils, TLCExt

Rec == ndJsonDeserialize(IOEnv.TRACE)
VARIABLE l
tvars == <<vars, l>>
Ev == Rec[l]
IsEvent(k) == l <= Len(Rec) /\ Ev.ev = k /\ l' = l + 1

TraceInit == /\ l = 1 /\ items = <<>> /\ origin = 0 /\ out = <<>> /\ refs = <<>> /\ idx = 0 /\ li = 1
             /\ starts = <<>> /\ pc = "begin"

\* a new message: the table starts empty
TraceReset == /\ IsEvent("CompReset") /\ pc = "begin"
              /\ items' = <<>> /\ refs' = <<>> /\ idx' = 0 /\ li' = 1
              /\ UNCHANGED <<origin, out, starts, pc>>

\* a name is about to be written: compressible position (arm 10) or in full (arm 14)
TraceName == /\ IsEvent("CompName") /\ pc = "begin"
             /\ items' = Append(items, [labels |-> Ev.labels, cls |-> IF Ev.arm = 10 THEN "M" ELSE "N"])
             /\ idx' = Len(items) + 1 /\ li' = 1
             /\ pc' = IF Ev.arm = 10 THEN "loop" ELSE "begin"      \* a plain name has no further events
             /\ UNCHANGED <<origin, out, refs, starts>>

TracePointer == /\ IsEvent("CompStep") /\ Ev.arm = 11
                /\ CanPointer /\ Ev.i + 1 = li
                /\ Ev.v = 49152 + PointerValue               \* 0xC000 | offset
                /\ pc' = "begin" /\ UNCHANGED <<items, origin, out, refs, idx, li, starts>>

TraceLabel == /\ IsEvent("CompStep") /\ Ev.arm = 12
              /\ CanLabel /\ Ev.i + 1 = li
              /\ refs' = TableAfterLabel(Ev.v)
              /\ (Ev.rec = 1) = (Lookup(Suffix) # 0 \/ ~(Guard /\ Ev.v > PtrLimit))
              /\ li' = li + 1 /\ UNCHANGED <<items, origin, out, idx, starts, pc>>

TraceRoot == /\ IsEvent("CompStep") /\ Ev.arm = 13
             /\ pc = "loop" /\ li > Len(Cur.labels)
             /\ pc' = "begin" /\ UNCHANGED <<items, origin, out, refs, idx, li, starts>>

TraceNext == TraceReset \/ TraceName \/ TracePointer \/ TraceLabel \/ TraceRoot
TraceSpec == TraceInit /\ [][TraceNext]_tvars

Accepted ==
  IF TLCGet("stats").diameter - 1 = Len(Rec) THEN PrintT(<<"TRACE-ACCEPTED", Len(Rec)>>)
  ELSE PrintT("MODEL-DRIFT-AT " \o ToJson(<<TLCGet("stats").diameter, Rec[TLCGet("stats").diameter]>>)) /\ FALSE
=============================================================================
