------------------------------ MODULE NameWire ------------------------------
(***************************************************************************)
(* Domain names on the wire, RFC 1035 sections 3.1 and 4.1.4.               *)
(*                                                                          *)
(* Ref layer: RefDecodeName(b, at) is the decoder the RFC describes: read   *)
(* length-prefixed labels, follow compression pointers, stop at the root    *)
(* label.  It is lenient about pointer direction (a forward pointer that    *)
(* does not cycle decodes): C06 lists cycles, pointers outside the message, *)
(* the reserved label types 01/10 and over-long names as mandatory errors,  *)
(* nothing else.  Offsets are 0-based (as on the wire); b is a 1-based      *)
(* TLA+ sequence, so byte at offset p is b[p + 1].                          *)
(***************************************************************************)
EXTENDS Naturals, Integers, Sequences, FiniteSets

CONSTANTS MaxLabel,   \* 63 on the real wire
          MaxName     \* 255 on the real wire

\* a chain that does not cycle visits every offset at most once; 1024 hops is far beyond anything a real
\* encoder produces (and bounds the work of this decoder on hostile 64 KiB inputs)
HopLimit(b) == IF Len(b) < 1024 THEN Len(b) ELSE 1024

NErr(why) == [ok |-> FALSE, why |-> why, labels |-> <<>>, next |-> -1]
NOk(labels, next) == [ok |-> TRUE, why |-> "", labels |-> labels, next |-> next]

\* pos: read position; size: wire bytes of the labels read so far (sum of 1+len);
\* hops: pointers followed; next: resume cursor once fixed by the first pointer, else -1.
\* hi: the end of the enclosing element (RDLENGTH span or message): the in-place bytes of
\* the name, i.e. everything read before the first pointer is followed, must end by hi;
\* after a pointer the decoder may read anywhere inside the message.
RECURSIVE DecodeFrom(_, _, _, _, _, _, _)
DecodeFrom(b, hi, pos, labels, size, hops, next) ==
  LET lim == IF next = -1 THEN hi ELSE Len(b) IN
  IF pos >= lim THEN NErr("truncated")
  ELSE LET c == b[pos + 1] IN
    IF c = 0 THEN NOk(labels, IF next = -1 THEN pos + 1 ELSE next)
    ELSE IF c >= 192 THEN
      IF pos + 1 >= lim THEN NErr("truncated")
      ELSE LET target == (c - 192) * 256 + b[pos + 2] IN
        IF target >= Len(b) THEN NErr("pointer-outside")
        ELSE IF hops >= HopLimit(b) THEN NErr("cycle")
        ELSE DecodeFrom(b, hi, target, labels, size, hops + 1, IF next = -1 THEN pos + 2 ELSE next)
    ELSE IF c >= 64 THEN NErr("reserved-label-type")
    ELSE IF c > MaxLabel THEN NErr("label-too-long")
    ELSE IF pos + 1 + c > lim THEN NErr("truncated")
    ELSE IF size + 1 + c + 1 > MaxName THEN NErr("name-too-long")
    ELSE DecodeFrom(b, hi, pos + 1 + c, Append(labels, SubSeq(b, pos + 2, pos + 1 + c)),
                    size + 1 + c, hops, next)

RefDecodeName(b, at) == DecodeFrom(b, Len(b), at, <<>>, 0, 0, -1)
RefDecodeNameIn(b, at, hi) == DecodeFrom(b, hi, at, <<>>, 0, 0, -1)

\* skip a name's in-place bytes without expanding it (used by the envelope walker):
\* the cursor after the root label or after the first pointer; -1 if malformed in place
RECURSIVE SkipName(_, _)
SkipName(b, pos) ==
  IF pos >= Len(b) THEN -1
  ELSE LET c == b[pos + 1] IN
    IF c = 0 THEN pos + 1
    ELSE IF c >= 192 THEN (IF pos + 1 >= Len(b) THEN -1 ELSE pos + 2)
    ELSE IF c >= 64 THEN -1
    ELSE IF pos + 1 + c > Len(b) THEN -1
    ELSE SkipName(b, pos + 1 + c)

\* plain encoding of a label sequence
RECURSIVE EncodeNamePlain(_)
EncodeNamePlain(labels) ==
  IF labels = <<>> THEN <<0>>
  ELSE <<Len(Head(labels))>> \o Head(labels) \o EncodeNamePlain(Tail(labels))

RECURSIVE WireLen(_)
WireLen(labels) == IF labels = <<>> THEN 1 ELSE 1 + Len(Head(labels)) + WireLen(Tail(labels))

ValidLabels(labels) ==
  /\ \A i \in 1 .. Len(labels) : Len(labels[i]) \in 1 .. MaxLabel
  /\ WireLen(labels) <= MaxName
=============================================================================
