------------------------------ MODULE Discovery ------------------------------
(***************************************************************************)
(* DNS-SD service discovery as simple-mdns' ServiceDiscovery implements it  *)
(* (sync_discovery/service_discovery.rs, async twin): several peers on one  *)
(* multicast link, each advertising one instance of the same service and    *)
(* watching for the others.  One action per step of the implementation:     *)
(*                                                                          *)
(*  Start(p)    new_with_scope: register own records, start the receive and *)
(*              refresh threads, announce(false), query_service_instances   *)
(*  Remove(p)   remove_service_from_discovery: announce(true) (every own    *)
(*              record with the cache-flush bit), then clear() the WHOLE    *)
(*              store (own records and everything learnt); threads go on    *)
(*  RemoveAsync(p), Advertise(p)  the same call of the tokio flavour: the   *)
(*              goodbye is only queued for the executor task, the store is  *)
(*              cleared at once, the executor serves the queue afterwards   *)
(*  Deliver(m)  receive loop: a response is ingested (add_cached_resource:  *)
(*              expiry = now + TTL, or now + 1 s with the cache-flush bit); *)
(*              a query is answered from the authoritative records only     *)
(*              (build_reply: SRV and TXT answers, the SRV target's address *)
(*              records as additionals)                                     *)
(*  Poll(p)     refresh thread: every 5 s, if some cached record is past    *)
(*              its refresh point (TTL/2 below 60 s, 80% above; records are *)
(*              never removed from the store, so an expired one counts      *)
(*              forever) send the service query again                       *)
(*  Tick        one second passes (only when every due Poll has run)        *)
(*  Drop(m)     the network loses a packet (Lossy only)                     *)
(*                                                                          *)
(* A peer's instance consists of record kinds: "txt" and "addr" always,     *)
(* "srv" iff it has a port (Ported).  cache[p][q][k] is what p has cached   *)
(* of kind k of q's instance: expiry and refresh time (0 = never seen).     *)
(***************************************************************************)
EXTENDS Naturals, FiniteSets, Sequences

CONSTANTS Peers, Ported, TTL, MaxTime, Lossy,
          Async,        \* the peers that use the tokio flavour (async_discovery::ServiceDiscovery)
          KeepLater,    \* deviation (negative configuration): a re-received record keeps the later expiry
          DropUntil     \* Lossy: packets are lost only before this time (beyond MaxTime: at any time)

Kinds == {"srv", "txt", "addr"}
KindsOf(q) == IF q \in Ported THEN Kinds ELSE {"txt", "addr"}
PollPeriod == 5
RefOff(ttl) == IF ttl = 0 THEN 0 ELSE IF ttl < 60 THEN ttl \div 2 ELSE (ttl \div 10) * 8

VARIABLES phase, cache, net, now, nextPoll, startAt, lastFrom,
          advq,      \* tokio flavour: the advertise requests (cache_flush flags) queued for the executor task
          byeSent    \* history: a goodbye packet of this peer was put on the wire
vars == <<phase, cache, net, now, nextPoll, startAt, lastFrom, advq, byeSent>>

None == [exp |-> 0, ref |-> 0]
Others(p) == Peers \ {p}

Init == /\ phase = [p \in Peers |-> "off"]
        /\ cache = [p \in Peers |-> [q \in Peers |-> [k \in Kinds |-> None]]]
        /\ net = {} /\ now = 0
        /\ nextPoll = [p \in Peers |-> 0]
        /\ startAt = [p \in Peers |-> 0]
        /\ lastFrom = [p \in Peers |-> [q \in Peers |-> [kind |-> "none", at |-> 0]]]
        /\ advq = [p \in Peers |-> <<>>]
        /\ byeSent = [p \in Peers |-> FALSE]

Cast(src, kind, recs) == {[src |-> src, kind |-> kind, recs |-> recs, dst |-> d, sent |-> now] : d \in Others(src)}

\* what a running peer answers to the service query (SRV, TXT): its own SRV and TXT records, and the
\* address records of the SRV target -- an instance without a port has no SRV, hence no addresses in the reply
ReplyRecs(q) == IF q \in Ported THEN Kinds ELSE {"txt"}

\* sync flavour: new_with_scope announces and queries before it returns.  tokio flavour: the executor task
\* queries when it starts and the constructor queues an advertise request (a second one a second later, not
\* modelled: it repeats the first)
Start(p) ==
  /\ phase[p] = "off"
  /\ phase' = [phase EXCEPT ![p] = "on"]
  /\ IF p \in Async
     THEN net' = net \cup Cast(p, "query", {}) /\ advq' = [advq EXCEPT ![p] = Append(@, FALSE)]
     ELSE net' = net \cup Cast(p, "ann", KindsOf(p)) \cup Cast(p, "query", {}) /\ UNCHANGED advq
  /\ nextPoll' = [nextPoll EXCEPT ![p] = now + PollPeriod]
  /\ startAt' = [startAt EXCEPT ![p] = now]
  /\ UNCHANGED <<cache, now, lastFrom, byeSent>>

\* sync flavour: announce(true) sends the goodbye, then the store is cleared -- one call, nothing in between
Remove(p) ==
  /\ p \notin Async /\ phase[p] = "on"
  /\ phase' = [phase EXCEPT ![p] = "gone"]
  /\ net' = net \cup Cast(p, "bye", KindsOf(p))
  /\ byeSent' = [byeSent EXCEPT ![p] = TRUE]
  /\ cache' = [cache EXCEPT ![p] = [q \in Peers |-> [k \in Kinds |-> None]]]
  /\ UNCHANGED <<now, nextPoll, startAt, lastFrom, advq>>

\* tokio flavour: remove_service_from_discovery only QUEUES the goodbye (announce(true) sends a message to the
\* executor task) and then clears the store at once ...
RemoveAsync(p) ==
  /\ p \in Async /\ phase[p] = "on"
  /\ advq' = [advq EXCEPT ![p] = Append(@, TRUE)]
  /\ phase' = [phase EXCEPT ![p] = "gone"]
  /\ cache' = [cache EXCEPT ![p] = [q \in Peers |-> [k \in Kinds |-> None]]]
  /\ UNCHANGED <<net, now, nextPoll, startAt, lastFrom, byeSent>>

\* ... and the executor task serves the request later, from whatever the store holds by then: after the clear
\* there is nothing left to announce and no packet is sent (advertise_service: "Failed to advertise service")
Advertise(p) ==
  /\ p \in Async /\ advq[p] # <<>>
  /\ advq' = [advq EXCEPT ![p] = Tail(@)]
  /\ IF phase[p] = "on"
     THEN /\ net' = net \cup Cast(p, IF Head(advq[p]) THEN "bye" ELSE "ann", KindsOf(p))
          /\ byeSent' = [byeSent EXCEPT ![p] = @ \/ Head(advq[p])]
     ELSE UNCHANGED <<net, byeSent>>
  /\ UNCHANGED <<phase, cache, now, nextPoll, startAt, lastFrom>>

Stored(old, ttl) ==
  LET e == now + ttl IN
  [exp |-> IF KeepLater /\ old.exp > e THEN old.exp ELSE e, ref |-> now + RefOff(ttl)]

Deliver(m) ==
  /\ m \in net
  /\ LET d == m.dst IN
     IF phase[d] = "off" THEN net' = net \ {m} /\ UNCHANGED <<cache, lastFrom>>
     ELSE CASE m.kind \in {"ann", "reply"} ->
                 /\ cache' = [cache EXCEPT ![d][m.src] = [k \in Kinds |-> IF k \in m.recs THEN Stored(@[k], TTL) ELSE @[k]]]
                 /\ lastFrom' = [lastFrom EXCEPT ![d][m.src] = [kind |-> m.kind, at |-> now]]
                 /\ net' = net \ {m}
            [] m.kind = "bye" ->
                 /\ cache' = [cache EXCEPT ![d][m.src] = [k \in Kinds |-> IF k \in m.recs THEN Stored(@[k], 1) ELSE @[k]]]
                 /\ lastFrom' = [lastFrom EXCEPT ![d][m.src] = [kind |-> "bye", at |-> now]]
                 /\ net' = net \ {m}
            [] m.kind = "query" ->
                 /\ net' = (net \ {m}) \cup (IF phase[d] = "on" THEN Cast(d, "reply", ReplyRecs(d)) ELSE {})
                 /\ UNCHANGED <<cache, lastFrom>>
  /\ UNCHANGED <<phase, now, nextPoll, startAt, advq, byeSent>>

Drop(m) == Lossy /\ now < DropUntil /\ m \in net /\ net' = net \ {m} /\ UNCHANGED <<phase, cache, now, nextPoll, startAt, lastFrom, advq, byeSent>>

Due(p) == \E q \in Peers, k \in Kinds : cache[p][q][k].exp > 0 /\ cache[p][q][k].ref < now

Poll(p) ==
  /\ phase[p] # "off" /\ nextPoll[p] = now
  /\ net' = IF Due(p) THEN net \cup Cast(p, "query", {}) ELSE net
  /\ nextPoll' = [nextPoll EXCEPT ![p] = now + PollPeriod]
  /\ UNCHANGED <<phase, cache, now, startAt, lastFrom, advq, byeSent>>

\* packets are delivered (or lost) within the second they are sent; every due poll runs before time passes
Tick ==
  /\ now < MaxTime /\ net = {}
  /\ \A p \in Peers : phase[p] # "off" => nextPoll[p] > now
  /\ \A p \in Peers : advq[p] = <<>>               \* the executor task serves its queue within the second
  /\ now' = now + 1
  /\ UNCHANGED <<phase, cache, net, nextPoll, startAt, lastFrom, advq, byeSent>>

Next == \/ \E p \in Peers : Start(p) \/ Remove(p) \/ RemoveAsync(p) \/ Advertise(p) \/ Poll(p)
        \/ \E m \in net : Deliver(m) \/ Drop(m)
        \/ Tick

Spec == Init /\ [][Next]_vars

-----------------------------------------------------------------------------
\* what get_known_services() of p shows
Visible(c) == c.exp > now
Known(p) == {q \in Peers : \E k \in Kinds : Visible(cache[p][q][k])}
Complete(p, q) == \A k \in KindsOf(q) : Visible(cache[p][q][k])

TypeOK ==
  /\ phase \in [Peers -> {"off", "on", "gone"}]
  /\ now \in 0 .. MaxTime
  /\ \A p \in Peers : cache[p][p] = [k \in Kinds |-> None]           \* a peer never caches its own instance

\* C20 at the level of the protocol: once a goodbye from q has been ingested and nothing newer from q
\* arrived, q is gone from p's view one second later
GoodbyeHonoured ==
  \A p \in Peers : \A q \in Others(p) :
     (lastFrom[p][q].kind = "bye" /\ now >= lastFrom[p][q].at + 1) => q \notin Known(p)

\* C15 at the level of the protocol: whoever is reported is reported with every record kind it advertises
NeverPartial == \A p \in Peers : \A q \in Known(p) : Complete(p, q)

\* nothing is reported that was not advertised (record kinds the peer does not have)
NothingForeign == \A p \in Peers, q \in Peers : \A k \in Kinds \ KindsOf(q) : cache[p][q][k] = None

\* without loss, two running peers know each other from the second after the later one started ...
Prompt ==
  ~Lossy => \A p \in Peers : \A q \in Others(p) :
     (phase[p] = "on" /\ phase[q] = "on" /\ net = {} /\ advq[p] = <<>> /\ advq[q] = <<>>
      /\ now = (IF startAt[p] > startAt[q] THEN startAt[p] ELSE startAt[q]))
        => q \in Known(p)
\* ... and keep knowing each other for as long as both run (the refresh query arrives before the records expire)
Stable ==
  ~Lossy => \A p \in Peers : \A q \in Others(p) :
     (phase[p] = "on" /\ phase[q] = "on" /\ net = {} /\ advq[p] = <<>> /\ advq[q] = <<>>
      /\ now >= (IF startAt[p] > startAt[q] THEN startAt[p] ELSE startAt[q]))
        => q \in Known(p)

\* loss is repaired: once the network has stopped losing packets for a TTL and two poll periods, two running
\* peers know each other.  TLC refutes it (Neg_Discovery_lostfirst.cfg): a peer whose cache is EMPTY never
\* queries again (refresh_known_instances: get_next_refresh() = None -> sleep), nobody re-announces, and the
\* refresh query of the peer that did hear the other is answered with the answerer's own records only -- a
\* peer that lost the other's first announcement and the reply to its first query never discovers it
RepairedAfterLoss ==
  \A p \in Peers : \A q \in Others(p) :
     (phase[p] = "on" /\ phase[q] = "on" /\ net = {} /\ advq[p] = <<>> /\ advq[q] = <<>>
      /\ startAt[p] < DropUntil /\ startAt[q] < DropUntil
      /\ now >= DropUntil + TTL + 2 * PollPeriod)
        => q \in Known(p)

\* a peer that has left said goodbye (holds for the sync flavour by construction of Remove; for the tokio
\* flavour TLC finds the run in which the queued goodbye is served after the clear and nothing is sent)
RemoveSaysGoodbye == \A p \in Peers : (phase[p] = "gone" /\ advq[p] = <<>>) => byeSent[p]

-----------------------------------------------------------------------------
\* Liveness (checked under fairness, without a state constraint: MC_DiscoveryLive.cfg).  Every packet on the
\* wire is eventually delivered, the executor task eventually serves its queue, due polls run and time passes.
Fairness ==
  /\ WF_vars(\E m \in net : Deliver(m))
  /\ \A p \in Peers : WF_vars(Advertise(p)) /\ WF_vars(Poll(p))
  /\ WF_vars(Tick)
LiveSpec == Spec /\ Fairness

\* two running peers eventually know each other (or one of them leaves)
EventuallyKnown ==
  \A p \in Peers : \A q \in Others(p) :
     (phase[p] = "on" /\ phase[q] = "on") ~> (q \in Known(p) \/ phase[p] # "on" \/ phase[q] # "on")
\* a peer of the sync flavour that leaves is eventually forgotten by everybody else (the horizon must leave
\* room for the second it takes) -- unless the network delivered its goodbye BEFORE an earlier announcement or
\* reply of the same peer (the goodbye was sent but overtaken: the set `net` is unordered; TLC finds that run
\* when the disjunct is left out)
EventuallyForgotten ==
  \A p \in Peers \ Async : \A q \in Others(p) :
     (phase[p] = "gone" /\ now + 2 <= MaxTime) ~> (p \notin Known(q) \/ (byeSent[p] /\ lastFrom[q][p].kind # "bye"))
\* the same for every flavour: refuted for the tokio flavour (Neg_DiscoveryLive_async.cfg), whose goodbye is
\* never sent (section 11a of DESIGN.md)
EventuallyForgottenAll ==
  \A p \in Peers : \A q \in Others(p) :
     (phase[p] = "gone" /\ now + 2 <= MaxTime) ~> (p \notin Known(q) \/ (byeSent[p] /\ lastFrom[q][p].kind # "bye"))
=============================================================================
