SPECIFICATION Spec
CONSTANTS
  KeyMode = "lenprefix"
  MaxOps = 3
  CachedKeepsAuth = FALSE
INVARIANT ReplyBounds
INVARIANT CacheSound
PROPERTY AuthStays
CHECK_DEADLOCK FALSE
