SPECIFICATION Spec
CONSTANTS
  Mode = "expiry"
  MaxSteps = 16
INVARIANT Emit
CHECK_DEADLOCK FALSE
