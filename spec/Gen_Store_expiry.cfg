SPECIFICATION Spec
CONSTANTS
  Mode = "expiry"
  MaxSteps = 12
INVARIANT Emit
CHECK_DEADLOCK FALSE
