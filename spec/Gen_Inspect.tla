----------------------------- MODULE Gen_Inspect -----------------------------
(* C12 generator: wire messages that carry every byte string up to length 3 over *)
(* {NUL, ' ', '"', ';', 'a', '.', '\', '=', 0x80, 0xC3, 0xA9, 0xFF} in every name and string *)
(* position (owner label, RDATA name label, character-string, TXT strings), plus  *)
(* empty and maximal strings.  Encoded by the reference encoder.                  *)
EXTENDS Domains, Bytes, TLC, Json

CONSTANTS Alphabet, L
VARIABLE s
Strings == UNION {[1 .. n -> Alphabet] : n \in 0 .. L} \cup {Rep(63, 255), Rep(63, 46)}
           \* one label whose text looks like several: "a.a.a", "a.a.a.a.a"
           \cup {<<97, 46, 97, 46, 97>>, <<97, 46, 97, 46, 97, 46, 97, 46, 97>>}
Init == s \in Strings
Next == UNCHANGED s
Spec == Init /\ [][Next]_s

\* s cut after its first k bytes (k clipped to 0 .. Len(s))
Cut(k) == IF k < 0 THEN 0 ELSE IF k > Len(s) THEN Len(s) ELSE k
Pre(k) == [i \in 1 .. Cut(k) |-> s[i]]
Suf(k) == [i \in 1 .. (Len(s) - Cut(k)) |-> s[Cut(k) + i]]
Lbl == IF s = <<>> THEN <<>> ELSE <<s>>          \* the string as one label (names cannot hold empty labels)
Long == IF Len(s) = 63 THEN Rep(255, s[1]) ELSE s
RR(nm, t, f) == [name |-> nm, type |-> t, class |-> 1, cf |-> FALSE, ttl |-> <<0, 0, 0, 5>>, rd |-> f]

Pkt ==
  [id |-> 1, fs |-> 32768, opcode |-> 0, rcode |-> 0, opt |-> <<>>,
   qd |-> <<[name |-> Lbl \o <<La>>, qtype |-> 255, qclass |-> 255, unicast |-> FALSE]>>,
   an |-> <<RR(Lbl \o <<La>>, 16, <<<<Long, s, <<107, 61>> \o s>>>>),          \* TXT: strings s, s, "k=" s
            \* TXT whose text is s cut into two character-strings at every position (a multi-byte character may
            \* straddle the cut: each piece alone is then not UTF-8 while the text as a whole is)
            RR(<<La>>, 16, <<<<Pre(Len(s) \div 2), Suf(Len(s) \div 2)>>>>),
            RR(<<La>>, 16, <<<<<<107, 61>> \o Pre(1), Suf(1)>>>>),
            RR(<<La>>, 16, <<<<<<107, 61, 97>> \o Pre(Len(s) - 1), Suf(Len(s) - 1) \o <<59, 120>>>>>>),
            RR(<<La>> \o Lbl, 13, <<Long, s>>),                                 \* HINFO
            RR(Lbl, 15, <<<<0, 1>>, Lbl \o Lbl>>),                              \* MX
            RR(<<La>>, 35, <<<<0, 1>>, <<0, 2>>, s, Long, s, Lbl>>),            \* NAPTR
            RR(<<La>>, 257, <<<<0>>, s, Long>>),                                \* CAA
            RR(<<La>>, 20, <<s, s>>)>>,                                         \* ISDN
   ns |-> <<RR(Lbl, 6, <<Lbl, <<IF Len(s) = 63 THEN s ELSE s \o <<97>>>>, <<0, 0, 0, 1>>, <<0, 0, 0, 2>>, <<0, 0, 0, 3>>, <<0, 0, 0, 4>>, <<0, 0, 0, 5>>>>)>>,
   ar |-> <<RR(Lbl, 33, <<<<0, 1>>, <<0, 2>>, <<0, 80>>, Lbl>>), RR(Lbl, 47, <<Lbl, <<<<0, <<64>>>>>>>>)>>]

Msg == RefEncodePlain(Pkt)
RefOK == LET d == RefDecode(Msg) IN d.ok /\ d.exact /\ d.pkt = Pkt
Emit == PrintT(<<"CASE", ToJson([msg |-> Msg, s |-> s, utf8 |-> Utf8Ok(s)])>>)
=============================================================================
