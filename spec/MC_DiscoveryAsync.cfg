SPECIFICATION Spec
CONSTANTS
  p1 = p1
  p2 = p2
  p3 = p3
  Peers <- TwoPeers
  Ported <- TwoPeers
  TTL = 12
  MaxTime = 26
  Lossy = FALSE
  KeepLater = FALSE
  Async <- TwoPeers
INVARIANT TypeOK
INVARIANT GoodbyeHonoured
INVARIANT NeverPartial
INVARIANT NothingForeign
INVARIANT Prompt
INVARIANT Stable
CHECK_DEADLOCK FALSE
