SPECIFICATION Spec
CONSTANTS
  Pairwise = FALSE
  MaxLabel = 63
  MaxName = 255
INVARIANT RefAgrees
INVARIANT Emit
CHECK_DEADLOCK FALSE
