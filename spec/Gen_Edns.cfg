SPECIFICATION Spec
CONSTANTS
  MaxLabel = 63
  MaxName = 255
INVARIANT RefAgrees
INVARIANT Emit
CHECK_DEADLOCK FALSE
