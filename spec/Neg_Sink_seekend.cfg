SPECIFICATION Spec
CONSTANTS
  SeekBack = "storage-end"
  MaxStart = 3
INVARIANT SinkSame
INVARIANT SinkErr
CHECK_DEADLOCK FALSE
