SPECIFICATION Spec
CONSTANTS
  Pairwise = FALSE
  MaxLabel = 63
  MaxName = 255
  MaxEntries = 8
INVARIANT RefRoundTrip
INVARIANT HistoryConsistent
INVARIANT Emit
CHECK_DEADLOCK FALSE
