SPECIFICATION Spec
CONSTANTS
  MaxLabel = 63
  MaxName = 255
  MaxEntries = 8
INVARIANT RefRoundTrip
INVARIANT Emit
CHECK_DEADLOCK FALSE
