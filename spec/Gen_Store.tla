------------------------------- MODULE Gen_Store -------------------------------
(***************************************************************************)
(* Generator of store histories (direction spec -> impl) for C13 and C20:   *)
(* TLC random-walks the abstract store machine and prints each history --   *)
(* the operations with the abstract store's predictions left out: the trace *)
(* specification recomputes them when it validates what the real store did. *)
(*  Mode "reply":  add-authoritative / add-cached / remove / clear and      *)
(*                 build_reply queries (1-2 questions, every QTYPE/QCLASS)  *)
(*  Mode "matrix": one registered record x every QTYPE x QCLASS {IN,CH,ANY} *)
(*                 at the record's own name and at its parent               *)
(*  Mode "expiry": the same operations with TTLs {0,1,2,1000} and the       *)
(*                 cache-flush bit, sleeps of 300..1200 ms, and store       *)
(*                 queries with the authoritative / cached / all filters    *)
(***************************************************************************)
EXTENDS Store, TLC, Json

CONSTANTS Mode, MaxSteps

Foo == <<102, 111, 111>>
Bar == <<98, 97, 114>>
Foobar == <<102, 111, 111, 98, 97, 114>>
My == <<95, 109, 121>>
Mysrv == <<95, 109, 121, 115, 114, 118>>
Local == <<108, 111, 99, 97, 108>>
A1 == <<97>>
B1 == <<98>>

AdotB == <<97, 46, 98>>          \* one label "a.b": a dot inside a label is legal on the wire
Names == {<<Foo, Bar>>, <<Foobar>>, <<My, Local>>, <<Mysrv, Local>>, <<A1, Mysrv, Local>>, <<B1, Mysrv, Local>>,
          <<Local>>, <<Bar>>, <<A1, B1, Mysrv, Local>>, <<B1, A1, Mysrv, Local>>, <<A1, Foobar>>,
          \* [a.b][local] vs [b][a][local] vs [a][local]: equal or prefix-related under a root-first key that joins
          \* labels with dots (local.a.b.)
          <<AdotB, Local>>, <<B1, A1, Local>>, <<A1, Local>>}

Rec(n, t, c, rd) == [name |-> n, type |-> t, class |-> c, cf |-> FALSE, ttl |-> <<0, 0, 0, 120>>, rd |-> rd]
Catalogue ==
  {Rec(n, 1, 1, <<<<10, 0, 0, i>>>>) : n \in Names, i \in {1, 2}}
  \cup {Rec(n, 28, 1, <<<<32, 1, 13, 184, 0, 0, 0, 0, 0, 0, 0, 0, 0, 0, 0, 1>>>>) : n \in {<<A1, Mysrv, Local>>, <<Foobar>>}}
  \cup {Rec(<<Mysrv, Local>>, 33, 1, <<<<0, 0>>, <<0, 0>>, <<0, 80>>, t>>) : t \in {<<A1, Mysrv, Local>>, <<Foobar>>}}
  \cup {Rec(<<Mysrv, Local>>, 12, 1, <<<<A1, Mysrv, Local>>>>), Rec(<<Foo, Bar>>, 16, 1, <<<<<<120>>>>>>),
        Rec(<<Foobar>>, 16, 3, <<<<<<121>>>>>>), Rec(<<Foo, Bar>>, 8, 1, <<<<Bar>>>>), Rec(<<Bar>>, 15, 1, <<<<0, 5>>, <<Foo, Bar>>>>),
        Rec(<<My, Local>>, 1, 4, <<<<10, 9, 9, 9>>>>),
        \* the rest of the mailbox family (MAILB = MB, MG, MR; MAILA = MX) and a type with two names
        Rec(<<Foo, Bar>>, 7, 1, <<<<Foobar>>>>), Rec(<<Foo, Bar>>, 9, 1, <<<<Bar>>>>), Rec(<<Foobar>>, 9, 1, <<<<Foo, Bar>>>>),
        Rec(<<Bar>>, 14, 1, <<<<A1, Mysrv, Local>>, <<Foobar>>>>),
        \* opaque content: a NULL record, and a type the crate has no name for
        \* (5 and 6 bytes: TLC orders tuples by length first, and no name here has 5 or 6 labels)
        Rec(<<Foo, Bar>>, 10, 1, <<<<1, 2, 3, 4, 5>>>>), Rec(<<Foobar>>, 65280, 1, <<<<4, 5, 6, 7, 8, 9>>>>)}

\* expiry mode works on a handful of records so that the same record is received again and again
ExpiryCat == {r \in Catalogue : r.type = 1 /\ r.rd = <<<<10, 0, 0, 1>>>> /\ r.name \in {<<Mysrv, Local>>, <<A1, Mysrv, Local>>, <<Foobar>>}}
             \cup {r \in Catalogue : r.type = 33 /\ r.rd[4] = <<Foobar>>}
ExpiryNames == {r.name : r \in ExpiryCat}

VARIABLES hist, n, done
vars == <<hist, n, done>>
\* Mode "matrix": one registered record, asked about with every question type and class at its own name
\* and at its parent (bounded-exhaustive single-record x question matrix)
AllQTypes == (SupportedTypes \ {41}) \cup QTypeSpecials
RECURSIVE SetSeq(_)
SetSeq(S0) == IF S0 = {} THEN <<>> ELSE LET m == CHOOSE x \in S0 : \A y \in S0 : x <= y IN <<m>> \o SetSeq(S0 \ {m})
MatrixHist(r) ==
  LET qts == SetSeq(AllQTypes)
      names == <<r.name, IF r.name = <<>> THEN <<>> ELSE Tail(r.name)>>
      cell(k) == LET ni == ((k - 1) \div (3 * Len(qts))) + 1
                     rest == (k - 1) % (3 * Len(qts))
                     qt == qts[(rest \div 3) + 1]
                     qc == <<1, 3, 255>>[(rest % 3) + 1] IN
                 [op |-> "reply", id |-> 7, qd |-> <<[name |-> names[ni], qtype |-> qt, qclass |-> qc, unicast |-> FALSE]>>] IN
  <<[op |-> "add_auth", rec |-> r]>> \o [k \in 1 .. (2 * 3 * Len(qts)) |-> cell(k)]

\* ... and twins: the same name and RDATA registered in two classes (IN then CH, CH then IN), asked about with the
\* same matrix -- records are told apart by class as well
TwinCat == {r \in Catalogue : r.class = 1 /\ (r.type \in {33, 16, 12}
                                               \/ (r.type = 1 /\ r.rd = <<<<10, 0, 0, 1>>>> /\ r.name \in {<<Mysrv, Local>>, <<Foobar>>, <<A1, Mysrv, Local>>}))}
TwinHist(r, o) ==
  LET a == [op |-> "add_auth", rec |-> r]
      b == [op |-> "add_auth", rec |-> [r EXCEPT !.class = 3]] IN
  (IF o = 1 THEN <<a, b>> ELSE <<b, a>>) \o Tail(MatrixHist(r))

Init == IF Mode = "matrix" THEN /\ \/ \E r \in Catalogue : hist = MatrixHist(r)
                                   \/ \E r \in TwinCat, o \in {1, 2} : hist = TwinHist(r, o)
                                /\ n = 0 /\ done = TRUE
        ELSE hist = <<>> /\ n = 0 /\ done = FALSE

TtlBytes(t) == <<0, 0, (t \div 256) % 256, t % 256>>
\* half of the time draw from the SRV neighbourhood (SRV records, address records at, below and above
\* their targets) so that additional-record rules are exercised often
SrvWorld == {r \in Catalogue : r.type = 33 \/ (r.type \in {1, 28} /\ \E tn \in {<<A1, Mysrv, Local>>, <<Foobar>>} :
                                                    r.name = tn \/ IsSubdomainOf(r.name, tn) \/ IsSubdomainOf(tn, r.name))}
RandRec(x) == IF RandomElement({0, 1}) = 0 THEN RandomElement(SrvWorld) ELSE RandomElement(Catalogue)
\* questions mostly ask for names that were registered earlier in the history
Added(x) == {x[i].rec.name : i \in {j \in 1 .. Len(x) : x[j].op \in {"add_auth", "add_cached"}}}
RandQuestion(x) == [name |-> IF Added(x) # {} /\ RandomElement(1 .. 4) <= 3 THEN RandomElement(Added(x))
                             ELSE RandomElement(Names \cup {<<Foo>>, <<Mysrv>>, <<>>}),
                 qtype |-> RandomElement({1, 28, 33, 33, 16, 12, 8, 15, 253, 255, 255, 255, 252, 254}),
                 qclass |-> RandomElement({1, 3, 255}), unicast |-> RandomElement(BOOLEAN)]

Op(x) ==
  LET die == RandomElement(1 .. 20) IN
  IF Mode = "reply" THEN
    CASE die <= 7 -> [op |-> "add_auth", rec |-> [RandRec(x) EXCEPT !.cf = RandomElement({FALSE, FALSE, TRUE})]]
      \* (a received record may be expired on arrival -- TTL 0 -- and stays in the store: it is never an answer)
      [] die <= 10 -> [op |-> "add_cached", rec |-> [RandRec(x) EXCEPT !.ttl = TtlBytes(RandomElement({0, 1000, 1000}))]]
      \* removals mostly target records registered earlier, with either value of the cache-flush bit and any TTL
      [] die <= 12 -> [op |-> "remove",
                       rec |-> [(IF Added(x) # {} /\ RandomElement({1, 2, 3}) > 1
                                 THEN RandomElement({x[i].rec : i \in {j \in 1 .. Len(x) : x[j].op \in {"add_auth", "add_cached"}}})
                                 ELSE RandRec(x))
                                EXCEPT !.cf = RandomElement(BOOLEAN), !.ttl = TtlBytes(RandomElement({0, 120, 1000}))]]
      [] die = 13 -> [op |-> "clear"]
      [] OTHER -> [op |-> "reply", id |-> RandomElement({0, 7, 65535}),
                   qd |-> IF RandomElement({1, 2, 3}) = 1 THEN <<RandQuestion(x), RandQuestion(x)>> ELSE <<RandQuestion(x)>>]
  ELSE
    LET seen == {x[i].rec : i \in {j \in 1 .. Len(x) : x[j].op = "add_cached"}}
        again == IF seen = {} THEN RandomElement(ExpiryCat) ELSE RandomElement(seen)
        shortTtl == TtlBytes(RandomElement({0, 1, 1, 2, 2})) IN
    \* probe pattern: a reception is often followed by a pause shorter or longer than the record's life and
    \* then by a look at exactly that name (TTL 0 must be invisible at once, 1 s after 1 s, ...)
    CASE Len(x) >= 1 /\ x[Len(x)].op = "add_cached" /\ die <= 9 ->
           [op |-> "sleep", ms |-> RandomElement({300, 300, 600, 900, 1200})]
      [] Len(x) >= 2 /\ x[Len(x)].op = "sleep" /\ x[Len(x) - 1].op = "add_cached" /\ die <= 15 ->
           [op |-> "query", name |-> x[Len(x) - 1].rec.name, filter |-> RandomElement({"cached", "cached", "all"})]
      [] die <= 2 -> [op |-> "add_auth", rec |-> RandomElement(ExpiryCat)]
      [] die <= 6 -> [op |-> "add_cached",
                      rec |-> [RandomElement(ExpiryCat) EXCEPT !.ttl = TtlBytes(RandomElement({0, 1, 2, 1000, 1000, 1000})),
                                                               !.cf = RandomElement({FALSE, FALSE, FALSE, TRUE})]]
      \* the same record received again with a different (often shorter) lifetime
      [] die <= 9 -> [op |-> "add_cached",
                      rec |-> [again EXCEPT !.ttl = IF RandomElement({1, 2, 3}) = 1 THEN TtlBytes(1000) ELSE shortTtl,
                                            !.cf = RandomElement({FALSE, FALSE, TRUE})]]
      [] die = 10 -> [op |-> "remove", rec |-> RandomElement(ExpiryCat)]
      [] die = 11 -> IF RandomElement(1 .. 4) = 1 THEN [op |-> "clear"] ELSE [op |-> "sleep", ms |-> 300]
      [] die <= 14 -> [op |-> "sleep", ms |-> RandomElement({300, 600, 900, 1200, 1200})]
      [] die = 15 -> [op |-> "refresh"]
      [] OTHER -> [op |-> "query", name |-> IF seen = {} THEN RandomElement(ExpiryNames) ELSE again.name,
                   filter |-> RandomElement({"auth", "auth_sub", "cached", "cached", "cached", "all"})]

Step == ~done /\ n < MaxSteps /\ hist' = Append(hist, Op(hist)) /\ n' = n + 1 /\ UNCHANGED done
Finish == ~done /\ n >= 3 /\ (n = MaxSteps \/ RandomElement(1 .. 8) = 1) /\ done' = TRUE /\ UNCHANGED <<hist, n>>
Next == Step \/ Finish
Spec == Init /\ [][Next]_vars

Emit == done => PrintT(<<"CASE", ToJson([mode |-> Mode, hist |-> hist])>>)
=============================================================================
