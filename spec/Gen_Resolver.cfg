SPECIFICATION Spec
CONSTANTS
  L = 2
INVARIANT ModelSound
INVARIANT Emit
CHECK_DEADLOCK FALSE
