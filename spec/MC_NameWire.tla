---------------------------- MODULE MC_NameWire ----------------------------
(***************************************************************************)
(* Impl layer: the name-parsing loop of the crate (Name::parse) as a state  *)
(* machine, one action per loop arm, checked against RefDecodeName for ALL  *)
(* buffers up to length L over a boundary alphabet at every start offset.   *)
(* Scaled constants (MaxLabel = 3, MaxName = 8) let 5-byte buffers reach    *)
(* the label-length and name-length limits.                                 *)
(*                                                                          *)
(* GuardReadAt selects which cursor the loop's end-of-buffer test uses:     *)
(* "ptr" (the position actually read: the repaired code) or "pos" (the      *)
(* cursor of the enclosing element: the pinned tree, which TLC shows        *)
(* reaches the OOBRead action).                                             *)
(***************************************************************************)
EXTENDS NameWire, TLC

CONSTANTS Alphabet, L, GuardReadAt, HopBudget

VARIABLES buf, start, pos, ptr, following, size, labels, hops, status
vars == <<buf, start, pos, ptr, following, size, labels, hops, status>>

Bufs == UNION {[1 .. n -> Alphabet] : n \in 0 .. L}

Init == /\ buf \in Bufs
        /\ start \in 0 .. L
        /\ start <= Len(buf)
        /\ pos = start /\ ptr = start /\ following = FALSE /\ size = 0
        /\ labels = <<>> /\ hops = 0 /\ status = "run"

Stop(s) == /\ status' = s
           /\ UNCHANGED <<buf, start, pos, ptr, following, size, labels, hops>>

Guarded == IF GuardReadAt = "ptr" THEN ptr ELSE pos

\* the loop's two tests at the top of every iteration
FailTop == /\ status = "run"
           /\ \/ Guarded >= Len(buf)
              \/ size >= MaxName
           /\ Stop("err")

CanRead == status = "run" /\ Guarded < Len(buf) /\ size < MaxName

\* data[pointer_position] with pointer_position beyond the buffer: a panic in Rust
OOBRead == /\ CanRead /\ ptr >= Len(buf)
           /\ Stop("panic")

Byte == buf[ptr + 1]

Terminate == /\ CanRead /\ ptr < Len(buf) /\ Byte = 0
             /\ pos' = pos + 1
             /\ status' = "ok"
             /\ UNCHANGED <<buf, start, ptr, following, size, labels, hops>>

FollowPointer ==
  /\ CanRead /\ ptr < Len(buf) /\ Byte >= 192
  /\ LET pos1 == IF following THEN pos ELSE pos + 1 IN
     IF ptr + 2 > Len(buf) THEN
        /\ status' = "err" /\ pos' = pos1 /\ following' = TRUE
        /\ UNCHANGED <<buf, start, ptr, size, labels, hops>>
     ELSE LET target == (Byte - 192) * 256 + buf[ptr + 2] IN
        IF target >= ptr \/ hops >= HopBudget THEN
           /\ status' = "err" /\ pos' = pos1 /\ following' = TRUE
           /\ UNCHANGED <<buf, start, ptr, size, labels, hops>>
        ELSE
           /\ ptr' = target /\ pos' = pos1 /\ following' = TRUE /\ hops' = hops + 1
           /\ UNCHANGED <<buf, start, size, labels, status>>

ReadLabel ==
  /\ CanRead /\ ptr < Len(buf) /\ Byte \in 1 .. 191
  /\ LET len == Byte IN
     IF ptr + 1 + len > Len(buf) \/ len > MaxLabel THEN
        /\ status' = "err" /\ size' = size + 1 + len
        /\ UNCHANGED <<buf, start, pos, ptr, following, labels, hops>>
     ELSE
        /\ labels' = Append(labels, SubSeq(buf, ptr + 2, ptr + 1 + len))
        /\ size' = size + 1 + len
        /\ pos' = IF following THEN pos ELSE pos + len + 1
        /\ ptr' = ptr + len + 1
        /\ UNCHANGED <<buf, start, following, hops, status>>

Next == FailTop \/ OOBRead \/ Terminate \/ FollowPointer \/ ReadLabel

Spec == Init /\ [][Next]_vars

Ref == RefDecodeName(buf, start)

\* C01/C06: the loop never indexes outside the buffer
NoOOB == status # "panic"

\* C06: what the loop returns is what the RFC decoder returns
Refines ==
  /\ status = "ok" => /\ Ref.ok /\ labels = Ref.labels
                      /\ pos = Ref.next
  /\ (status \in {"ok", "err", "panic"} /\ ~Ref.ok) => status = "err"

\* C01: termination -- the variant strictly decreases on every step of a running parse
Variant == (MaxName + 64 - size) * (Len(buf) + 2) + (IF status = "run" THEN ptr + 1 ELSE 0)
Progress == [][status = "run" => (status' # "run" \/ size' > size \/ ptr' < ptr)]_vars

\* a terminated parse took at most (labels + hops + 1) iterations: linear work per name
Bounded == Len(labels) <= MaxName /\ hops <= HopBudget
=============================================================================
