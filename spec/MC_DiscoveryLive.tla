---------------------------- MODULE MC_DiscoveryLive ----------------------------
(* the protocol model (Discovery.tla) under fairness: liveness properties, see MC_DiscoveryLive.cfg *)
EXTENDS MC_Discovery
=============================================================================
