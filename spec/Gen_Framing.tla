------------------------------ MODULE Gen_Framing ------------------------------
(* C05 generator: well-formed envelopes in which one record's RDLENGTH differs    *)
(* from the natural size of its typed content by delta in {-2,-1,+1,+2,+7},       *)
(* followed by sentinel records, and messages whose section counts are one more   *)
(* or one less than the entries present.  The reference walker/decoder says what  *)
(* each must parse to (or that it must be rejected); the cases are printed for    *)
(* the harness.                                                                   *)
EXTENDS Domains, TLC, Json

CONSTANT Deltas
DeltasQuick == {-2, -1, 1, 2, 7}
DeltasThorough == {-9, -4, -3, -2, -1, 1, 2, 3, 4, 7, 16, 255}
VARIABLES t, delta, mode
vars == <<t, delta, mode>>

FrTypes == TypedTypes \cup {10, 99}

Init == \/ /\ t \in FrTypes
           /\ \/ delta \in Deltas /\ mode \in {"len-only", "resized"}
              \/ delta = 0 /\ mode \in {"count+1", "count-1", "exact", "empty", "empty-cut"}
        \* a large opaque record in front, so that the owner of the last record is a compression pointer to an
        \* offset beyond 1024 / 8192 / 16000 (every bit of the 14-bit offset field matters)
        \/ /\ t = 10 /\ mode = "far-pointer" /\ delta \in {1100, 1101, 1102, 9000, 9001, 9002, 16200, 16201}
        \* a pointer that leads back INTO the bytes just before itself: the owner of the second record points at the
        \* last RDATA byte of the first one, a length octet 1 whose label is the pointer's own first byte; decoding
        \* then runs on through the pointer's second byte (read as a length) in place.  The name is legal; the cursor
        \* of the enclosing record must still stop right after the two pointer bytes
        \/ /\ t = 10 /\ mode = "reentry" /\ delta = 0
        \* question codes: every pair of (QTYPE, QCLASS) from codes the crate has no name for, the boundaries of
        \* the 16 / 15-bit fields and one known code each -- the question comes out with the codes on the wire or
        \* the message is rejected
        \/ /\ t \in {1, 16} /\ mode = "question" /\ delta \in 0 .. 63
Next == UNCHANGED vars
Spec == Init /\ [][Next]_vars

Val == IF t = 45 THEN <<<<1>>, <<1>>, <<2>>, <<10, 0, 0, 1>>, <<1, 2, 3>>>>
       ELSE LET sc == Schema(t) IN Patch(t, [i \in 1 .. Len(sc) |-> Default(sc[i])])
NatRd == EncodeRData(t, Val)
Sentinel(i) == EncRecord([name |-> <<<<115>>, <<48 + i>>>>, type |-> 1, class |-> 1, cf |-> (i = 2),
                          ttl |-> IF i = 2 THEN <<255, 255, 255, 254>> ELSE <<0, 0, 0, i>>, rd |-> <<<<192, 0, 2, i>>>>])
\* padding that itself looks like the start of a record
Pad(n) == LET base == Sentinel(9) IN [i \in 1 .. n |-> base[((i - 1) % Len(base)) + 1]]

Owner == <<<<111>>, La>>
\* envelope values at their boundaries, spread over the record types: TTLs with the top bit set, the maximum,
\* zero; the cache-flush bit in the class field (not for OPT, whose class and TTL fields mean something else)
TtlOf == CASE t % 4 = 0 -> <<0, 0, 0, 60>> [] t % 4 = 1 -> <<128, 0, 0, 0>> [] t % 4 = 2 -> <<255, 255, 255, 255>> [] OTHER -> <<127, 255, 255, 255>>
\* IN and CH with and without the cache-flush bit, NONE with it (the bit is independent of the class)
ClassOf == IF t = 41 THEN 1 ELSE <<32769, 1, 3, 32771, 33022>>[(t % 5) + 1]
RRHead(len) == EncodeNamePlain(Owner) \o BE16(t) \o BE16(ClassOf) \o (IF t = 41 THEN <<0, 0, 0, 0>> ELSE TtlOf) \o BE16(len)

First ==
  CASE mode = "len-only" -> RRHead(Len(NatRd) + delta) \o NatRd          \* length field lies, bytes unchanged
    [] mode = "resized" /\ delta > 0 -> RRHead(Len(NatRd) + delta) \o NatRd \o Pad(delta)
    [] mode = "resized" /\ delta < 0 -> RRHead(Len(NatRd) + delta) \o SubSeq(NatRd, 1, Len(NatRd) + delta)
    \* RDLENGTH 0 (a record without RDATA, as in RFC 2136 prerequisites): the next entry starts right after it
    [] mode = "empty" -> RRHead(0)
    \* RDLENGTH 0 although the typed content follows: the content is then (mis)read as the next entry
    [] mode = "empty-cut" -> RRHead(0) \o NatRd
    \* (the opaque content is made of well-formed one-label names, so that a pointer that lands inside it through
    \* a wrong offset computation decodes -- to a wrong name -- instead of merely failing)
    [] mode = "far-pointer" -> RRHead(delta) \o [i \in 1 .. delta |-> <<1, 120, 0>>[(i % 3) + 1]]
    [] OTHER -> RRHead(Len(NatRd)) \o NatRd

\* the record under test is the answer, the sentinels are one authority and one additional record; the count that
\* lies is the additional-records count; half of the messages carry the TC and AA flags (a truncated message is
\* still rejected when its counts or lengths run past its end)
ArCount == CASE mode = "count+1" -> 2 [] mode = "count-1" -> 0 [] OTHER -> 1
FlagsOf == IF t % 2 = 0 THEN {"qr"} ELSE {"qr", "tc", "aa"}
Usable == Len(NatRd) + delta >= 0
\* a question in front, its QTYPE / QCLASS / unicast bit spread over the record types: specific types, the
\* five QTYPE specials (IXFR AXFR MAILB MAILA ANY), classes IN / CH / ANY
QSpecials == <<1, 251, 252, 253, 254, 255, 65, 16>>
QTCodes == <<0, 250, 256, 9999, 65535, 128, 1, 255>>
QCCodes == <<0, 2, 5, 253, 256, 32767, 1, 255>>
Quest == IF mode = "question"
         THEN [name |-> <<<<113>>, La>>, qtype |-> QTCodes[(delta % 8) + 1], qclass |-> QCCodes[(delta \div 8) + 1], unicast |-> (t = 16)]
         ELSE [name |-> <<<<113>>, La>>, qtype |-> QSpecials[(t % 8) + 1], qclass |-> <<1, 3, 255>>[(t % 3) + 1], unicast |-> (t % 2 = 1)]
\* Sentinel(2) with its owner written as a pointer to Sentinel(1)'s owner (s1: 01 's' 01 '1' 00)
FarOffset == 12 + Len(EncQuestion(Quest)) + Len(First)
SentinelPtr == <<192 + (FarOffset \div 256), FarOffset % 256>> \o SubSeq(Sentinel(1), 6, Len(Sentinel(1)))
ReT == 12 + Len(EncQuestion(Quest)) + Len(RRHead(4)) + 3
ReMsg == HdrEncode(9, FlagsOf, 0, 0, 1, 1, 1, 0) \o EncQuestion(Quest) \o RRHead(4) \o <<7, 7, 7, 1>>
         \o <<192, ReT>> \o BE16(10) \o BE16(1) \o <<0, 0, 0, 9>> \o BE16(ReT + 5)
         \* (behind the name's terminator the RDATA looks like the fixed part of an A record that ends where the real
         \* record ends: a parser whose cursor ran on with the name finds a well-formed message there)
         \o [i \in 1 .. ReT + 5 |-> IF i < ReT - 9 THEN 7 ELSE IF i = ReT - 9 THEN 0 ELSE <<0, 1, 0, 1, 1, 2, 3, 4, 0, 4, 9, 9, 9, 9>>[i - (ReT - 9)]]
ReentryOK == mode = "reentry" => LET d == RefDecode(ReMsg) IN
               /\ ReT <= 49 /\ d.ok /\ d.end = Len(ReMsg)
               /\ Len(d.pkt.ns[1].name) = 2 /\ d.pkt.ns[1].name[1] = <<192>> /\ Len(d.pkt.ns[1].name[2]) = ReT
Msg == IF mode = "reentry" THEN ReMsg ELSE
       IF mode = "far-pointer"
       THEN HdrEncode(9, FlagsOf, 0, 0, 1, 1, 1, 1) \o EncQuestion(Quest) \o First \o Sentinel(1) \o SentinelPtr
       ELSE HdrEncode(9, FlagsOf, 0, 0, 1, 1, 1, ArCount) \o EncQuestion(Quest) \o First \o Sentinel(1) \o Sentinel(2)
FarOK == mode = "far-pointer" => LET d == RefDecode(Msg) IN d.ok /\ d.end = Len(Msg) /\ d.pkt.ar[1].name = <<<<115>>, <<49>>>>

\* sanity of the generator itself: the exact variant decodes to three records
Entries(d) == Len(d.pkt.an) + Len(d.pkt.ns) + Len(d.pkt.ar) + (IF d.pkt.opt = <<>> THEN 0 ELSE 1)
EmptyOK == (mode = "empty" /\ t # 41) => LET d == RefDecode(Msg) IN d.ok /\ d.exact /\ Entries(d) = 3 /\ d.end = Len(Msg)
ExactOK == (mode = "exact") => LET d == RefDecode(Msg) IN d.ok /\ d.exact /\ Entries(d) = 3 /\ d.end = Len(Msg)

Emit == Usable => PrintT(<<"CASE", ToJson([msg |-> Msg, t |-> t, delta |-> delta, mode |-> mode])>>)
=============================================================================
