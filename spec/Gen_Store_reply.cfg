SPECIFICATION Spec
CONSTANTS
  Mode = "reply"
  MaxSteps = 14
INVARIANT Emit
CHECK_DEADLOCK FALSE
