----------------------------- MODULE Gen_Instance -----------------------------
(* C16 generator: set-valued instance information built by inserting the same     *)
(* members in every possible order (all permutations of up to 3 members per       *)
(* field), plus pairs that differ in one member.  TLC checks that the abstract    *)
(* equality is order-independent and prints each pair of construction orders.     *)
EXTENDS Values, TLC, Json

Ips == {<<4, 10, 0, 0, 1>>, <<4, 10, 0, 0, 2>>, <<6, 0, 0, 0, 0, 0, 0, 0, 0, 0, 0, 0, 0, 0, 0, 0, 1>>, <<6, 0, 0, 0, 0, 0, 0, 0, 0, 0, 0, 255, 255, 10, 0, 0, 1>>}          \* v4 10.0.0.1, 10.0.0.2, v6 ::1
Ports == {80, 443, 8080}
Perms(S) == {f \in [1 .. Cardinality(S) -> S] : \A i, j \in 1 .. Cardinality(S) : i # j => f[i] # f[j]}

VARIABLES ia, ib, pa, pb
vars == <<ia, ib, pa, pb>>
Init == \E I \in SUBSET Ips, P \in SUBSET Ports :
          /\ Cardinality(I) + Cardinality(P) >= 2
          /\ ia \in Perms(I) /\ ib \in Perms(I) /\ pa \in Perms(P) /\ pb \in Perms(P)
Next == UNCHANGED vars
Spec == Init /\ [][Next]_vars

A == [name |-> <<105>>, ips |-> ia, ports |-> pa, attrs |-> <<>>]
B == [name |-> <<105>>, ips |-> ib, ports |-> pb, attrs |-> <<>>]
OrderIrrelevant == SpecEq("instance", A, B)
Emit == PrintT(<<"CASE", ToJson([ia |-> ia, ib |-> ib, pa |-> pa, pb |-> pb])>>)
=============================================================================
