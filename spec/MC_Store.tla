------------------------------- MODULE MC_Store -------------------------------
(***************************************************************************)
(* The store as a state machine (AddAuth, AddCached, Remove, Clear, Tick,   *)
(* Query) over a catalogue of records on names chosen to collide under      *)
(* concatenation (foo.bar vs foobar, _my vs _mysrv).  TLC explores every    *)
(* history up to MaxOps operations and checks on every state and for every  *)
(* single-question query that what the Impl lookup answers lies between the *)
(* Ref bounds (C13), that expired cached records are not visible and that   *)
(* authoritative records never expire and never become cached (C20).        *)
(***************************************************************************)
EXTENDS Store, TLC

CONSTANTS KeyMode, MaxOps, CachedKeepsAuth

L(s) == s      \* labels are given as byte sequences
Foo == <<102, 111, 111>>
Bar == <<98, 97, 114>>
Foobar == <<102, 111, 111, 98, 97, 114>>
My == <<95, 109, 121>>
Mysrv == <<95, 109, 121, 115, 114, 118>>
Local == <<108, 111, 99, 97, 108>>
A1 == <<97>>

Names == {<<Foo, Bar>>, <<Foobar>>, <<My, Local>>, <<Mysrv, Local>>, <<A1, Mysrv, Local>>, <<Local>>, <<Bar>>,
          <<Bar, A1, Mysrv, Local>>}

Rec(n, t, c, rd) == [name |-> n, class |-> c, type |-> t, rd |-> rd]
Catalogue ==
  {Rec(n, 1, 1, <<<<10, 0, 0, 1>>>>) : n \in Names}
  \cup {Rec(<<Mysrv, Local>>, 33, 1, <<<<0, 0>>, <<0, 0>>, <<0, 80>>, <<A1, Mysrv, Local>>>>),
        Rec(<<Foo, Bar>>, 16, 1, <<<<<<120>>>>>>), Rec(<<Foobar>>, 16, 3, <<<<<<121>>>>>>),
        Rec(<<Foo, Bar>>, 8, 1, <<<<Bar>>>>)}

TTLs == {0, 1, 2, 1000}

VARIABLES auth, cached, names, clock, ops
vars == <<auth, cached, names, clock, ops>>
\* cached: function key -> absolute expiry tick; names: owner names ever inserted since the last clear

Init == auth = {} /\ cached = <<>> /\ names = {} /\ clock = 0 /\ ops = 0

Drop(f, k) == [x \in DOMAIN f \ {k} |-> f[x]]
Put(f, k, v) == [x \in DOMAIN f \cup {k} |-> IF x = k THEN v ELSE f[x]]

AddAuth(r) == /\ auth' = auth \cup {r} /\ cached' = Drop(cached, r) /\ names' = names \cup {r.name}
              /\ UNCHANGED clock
AddCached(r, ttl) ==
  /\ IF r \in auth /\ CachedKeepsAuth THEN UNCHANGED <<auth, cached>>
     ELSE auth' = auth \ {r} /\ cached' = Put(cached, r, clock + ttl)
  /\ names' = names \cup {r.name} /\ UNCHANGED clock
Remove(r) == auth' = auth \ {r} /\ cached' = Drop(cached, r) /\ UNCHANGED <<names, clock>>
Clear == auth' = {} /\ cached' = <<>> /\ names' = {} /\ UNCHANGED clock
Tick == clock' = clock + 1 /\ UNCHANGED <<auth, cached, names>>

Next == /\ ops < MaxOps /\ ops' = ops + 1
        /\ \/ \E r \in Catalogue : AddAuth(r) \/ Remove(r) \/ \E ttl \in TTLs : AddCached(r, ttl)
           \/ Clear \/ Tick
Spec == Init /\ [][Next]_vars

Questions == {[name |-> n, qtype |-> t, qclass |-> c, unicast |-> FALSE] :
                n \in Names \cup {<<Foo>>, <<Mysrv>>}, t \in {1, 16, 33, 253, 255}, c \in {1, 255}}

\* C13: for every single-question query the implementation's answers lie between the bounds
ReplyBounds ==
  \A q \in Questions :
    LET impl == ImplAnswers(auth, names, <<q>>, KeyMode) IN
    /\ impl \subseteq UpperAnswers(auth, <<q>>)
    /\ LowerAnswers(auth, <<q>>) \subseteq impl
    /\ \A a \in ImplAdditionals(auth, names, impl, KeyMode) : AdditionalOK(auth, impl, a)

\* C20: visible cached records (what a cached-only query may return at this instant)
VisibleCached == {k \in DOMAIN cached : clock < cached[k]}
CacheSound ==
  /\ auth \cap DOMAIN cached = {}                            \* never both: authoritative is not cached
  /\ \A k \in DOMAIN cached : (clock >= cached[k]) => k \notin VisibleCached

\* C20: an authoritative record stays until removed or cleared (action property)
AuthStays ==
  [][\A k \in auth : k \in auth' \/ (\E r \in Catalogue : r = k /\ Remove(r)) \/ Clear]_vars
=============================================================================
