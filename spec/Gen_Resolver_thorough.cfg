SPECIFICATION Spec
CONSTANTS
  L = 3
INVARIANT ModelSound
INVARIANT Emit
CHECK_DEADLOCK FALSE
