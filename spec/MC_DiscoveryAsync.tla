---------------------------- MODULE MC_DiscoveryAsync ----------------------------
(* MC_Discovery_async: the same protocol model (Discovery.tla) under another configuration, see MC_DiscoveryAsync.cfg *)
EXTENDS MC_Discovery
=============================================================================
