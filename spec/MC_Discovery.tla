---------------------------- MODULE MC_Discovery ----------------------------
(* Model-checking instance of Discovery.tla: 2-3 peers, TTL 12 s (refresh at 6 s, *)
(* polls every 5 s), horizon 26 s, with and without packet loss.                  *)
(* Negative configurations (TLC must refute them):                                *)
(*   Neg_Discovery_keeplater  the seeded "keep the later expiry" ingest: a goodbye *)
(*                            no longer removes the instance (GoodbyeHonoured)     *)
(*   Neg_Discovery_portless   an instance without a port answers the service query *)
(*                            with its TXT record only: a peer that starts later   *)
(*                            sees it without its addresses (NeverPartial) -- an   *)
(*                            observation about the protocol as implemented,       *)
(*                            documented in DESIGN.md, outside the listed          *)
(*                            properties' quantifier (announcement sequences)      *)
(*   Neg_Discovery_asyncbye   the tokio flavour's remove_service_from_discovery     *)
(*                            queues the goodbye and clears the store at once: the *)
(*                            executor finds nothing to announce, no goodbye is    *)
(*                            sent (RemoveSaysGoodbye) and the others keep listing *)
(*                            the peer for its whole TTL -- observed on the real   *)
(*                            implementation by the e2e runs, documented in        *)
(*                            DESIGN.md (no listed property speaks about it)       *)
(*   Neg_Discovery_shortttl   TTL 4 s: records expire between two 5 s polls, a     *)
(*                            running peer drops out of view (Stable)              *)
EXTENDS Discovery, TLC

CONSTANTS p1, p2, p3
TwoPeers == {p1, p2}
ThreePeers == {p1, p2, p3}
OnlyP1 == {p1}
OnlyP2 == {p2}
NoPeers == {}
\* bound on the packets in flight keeps the lossy three-peer model small
Bounded == Cardinality(net) <= 6
=============================================================================
