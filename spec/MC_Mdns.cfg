SPECIFICATION Spec
CONSTANTS
  Partial <- NoPartial
  MaxDatagrams = 3
INVARIANT ReceiverAlive
INVARIANT LockClean
INVARIANT AppUsable
CHECK_DEADLOCK FALSE
