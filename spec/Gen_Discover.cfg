SPECIFICATION Spec
CONSTANTS
  Mode = "announce"
  L = 0
INVARIANT Emit
CHECK_DEADLOCK FALSE
