-------------------------------- MODULE Codes --------------------------------
(***************************************************************************)
(* IANA DNS parameter tables for the codes the crate names, and the RFC     *)
(* 1035 section 3.2.2/3.2.3 query-matching rules.  Ref layer for C18 (and   *)
(* the matching part of C13).                                               *)
(***************************************************************************)
EXTENDS Naturals, Integers, Sequences, FiniteSets

\* mnemonic -> IANA RR TYPE number (https://www.iana.org/assignments/dns-parameters)
TypeTable ==
  [A |-> 1, NS |-> 2, MD |-> 3, MF |-> 4, CNAME |-> 5, SOA |-> 6, MB |-> 7, MG |-> 8, MR |-> 9,
   NULL |-> 10, WKS |-> 11, PTR |-> 12, HINFO |-> 13, MINFO |-> 14, MX |-> 15, TXT |-> 16,
   RP |-> 17, AFSDB |-> 18, ISDN |-> 20, RT |-> 21, NSAP |-> 22, NSAP_PTR |-> 23, AAAA |-> 28,
   LOC |-> 29, SRV |-> 33, NAPTR |-> 35, KX |-> 36, CERT |-> 37, OPT |-> 41, DS |-> 43,
   IPSECKEY |-> 45, RRSIG |-> 46, NSEC |-> 47, DNSKEY |-> 48, DHCID |-> 49, ZONEMD |-> 63,
   SVCB |-> 64, HTTPS |-> 65, EUI48 |-> 108, EUI64 |-> 109, CAA |-> 257]

SupportedTypes == {TypeTable[n] : n \in DOMAIN TypeTable}

QTypeTable == [IXFR |-> 251, AXFR |-> 252, MAILB |-> 253, MAILA |-> 254, ANY |-> 255]
QTypeSpecials == {QTypeTable[n] : n \in DOMAIN QTypeTable}

ClassTable == [IN |-> 1, CS |-> 2, CH |-> 3, HS |-> 4, NONE |-> 254]
SupportedClasses == {ClassTable[n] : n \in DOMAIN ClassTable}
QClassAny == 255

MailboxGroup == {7, 8, 9}    \* MB, MG, MR  (RFC 1035 3.2.3: MAILB)

\* the table is one-to-one
TablesInjective ==
  /\ \A a, b \in DOMAIN TypeTable : TypeTable[a] = TypeTable[b] => a = b
  /\ SupportedTypes \cap QTypeSpecials = {}
  /\ QClassAny \notin SupportedClasses

\* does a record of type code t match a question type code q?
\* Defined for q a specific type, ANY or MAILB; IXFR/AXFR/MAILA are left unconstrained.
MatchDefined(q) == q \notin {251, 252, 254}
MatchQType(t, q) == q = 255 \/ q = t \/ (q = 253 /\ t \in MailboxGroup)
MatchQClass(c, qc) == qc = QClassAny \/ qc = c

QTypeSupported(c) == c \in SupportedTypes \cup QTypeSpecials
QClassSupported(c) == c \in SupportedClasses \cup {QClassAny}
=============================================================================
