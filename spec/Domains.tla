------------------------------- MODULE Domains -------------------------------
(***************************************************************************)
(* Bounded, boundary-hitting value domains for generating packets from the  *)
(* specification (direction spec -> impl).  Every field takes each of its   *)
(* boundary values at least once with the other fields at their default,    *)
(* plus the all-extreme tuple.                                              *)
(***************************************************************************)
EXTENDS Message

CONSTANT Pairwise     \* FALSE: one field varies at a time; TRUE: additionally every pair of fields varies together

Rep(n, c) == [i \in 1 .. n |-> c]
Ramp(n) == [i \in 1 .. n |-> i % 256]

FixedVals(n) == {Rep(n, 0), Rep(n, 255), Ramp(n),
                 [i \in 1 .. n |-> IF i = 1 THEN 128 ELSE 0],
                 [i \in 1 .. n |-> IF i = 1 THEN 127 ELSE 255]}

La == <<97>>
Lb == <<98>>
NameDefault == <<Lb, La>>
NameVals == {<<>>, <<La>>, NameDefault, <<<<99>>, Lb, La>>,
             <<<<0, 255, 46, 92>>>>,                 \* a binary label: NUL, 0xFF, '.', '\'
             <<Rep(63, 120)>>,                        \* maximal label
             <<Rep(63, 120), Rep(63, 121), Rep(63, 122), Rep(61, 119)>>}   \* 255 bytes on the wire

StrVals == {<<>>, <<97>>, <<0, 255, 61, 59>>, Rep(255, 65)}
RestVals == {<<1>>, <<255, 0, 128>>, Ramp(300)}
RestValsE == RestVals \cup {<<>>}

Dom(d) ==
  CASE d.t = "F" -> FixedVals(d.n)
    [] d.t = "N" -> NameVals
    [] d.t = "S" -> StrVals
    [] d.t = "R" -> RestValsE
    [] d.t = "SS" -> {<<<<>>>>, <<<<97>>>>, <<<<107, 61, 118>>, <<>>, Rep(255, 66)>>}
    \* (every assigned EDNS option code / SvcParamKey and some unassigned ones, alone, with an empty and a one-byte value:
    \* a parser may treat a particular code specially)
    [] d.t = "TLV" -> {<<>>, <<<<0, <<>>>>>>, <<<<65535, <<1, 2>>>>, <<3, <<>>>>, <<3, <<9>>>>>>, <<<<10, Ramp(300)>>>>}
                      \cup {<<<<c, v>>>> : c \in (0 .. 21) \cup {26946, 65001, 65534}, v \in {<<>>, <<7>>}}
    [] d.t = "TLVI" -> {<<>>, <<<<0, <<>>>>>>, <<<<1, <<2, 104, 50>>>>, <<3, <<1, 187>>>>, <<65535, <<>>>>>>}
                       \cup {<<<<c, v>>>> : c \in (0 .. 9) \cup {65280, 65534}, v \in {<<>>, <<7>>}}
    \* (bitmaps that end in a zero octet or are all zero are not canonical but are accepted on the wire)
    [] d.t = "NW" -> {<<>>, <<<<0, <<64>>>>>>, <<<<0, <<1>>>>, <<1, <<0, 2>>>>, <<255, Rep(32, 255)>>>>,
                      <<<<0, <<64, 0>>>>>>, <<<<0, <<64>>>>, <<2, <<0>>>>>>, <<<<1, <<0, 0, 0>>>>>>}

Default(d) ==
  CASE d.t = "F" -> Ramp(d.n)
    [] d.t = "N" -> NameDefault
    [] d.t = "S" -> <<97>>
    [] d.t = "R" -> <<255, 0, 128>>
    [] d.t = "SS" -> <<<<97>>>>
    [] d.t = "TLV" -> <<<<3, <<9>>>>>>
    [] d.t = "TLVI" -> <<<<3, <<1, 187>>>>>>
    [] d.t = "NW" -> <<<<0, <<64>>>>>>

Extreme(d) ==
  CASE d.t = "F" -> Rep(d.n, 255)
    [] d.t = "N" -> <<Rep(63, 120)>>
    [] d.t = "S" -> Rep(255, 65)
    [] d.t = "R" -> Ramp(300)
    [] d.t = "SS" -> <<<<107, 61, 118>>, <<>>, Rep(255, 66)>>
    [] d.t = "TLV" -> <<<<65535, <<1, 2>>>>, <<3, <<>>>>, <<3, <<9>>>>>>
    [] d.t = "TLVI" -> <<<<1, <<2, 104, 50>>>>, <<3, <<1, 187>>>>, <<65535, <<>>>>>>
    [] d.t = "NW" -> <<<<0, <<1>>>>, <<1, <<0, 2>>>>, <<255, Rep(32, 255)>>>>

IpsecTuples ==
  {<<p, <<0>>, <<2>>, <<>>, k>> : p \in {<<10>>, <<255>>}, k \in RestValsE}
  \cup {<<<<1>>, <<1>>, <<2>>, g, <<1, 2, 3>>>> : g \in FixedVals(4)}
  \cup {<<<<1>>, <<2>>, <<0>>, g, <<>>>> : g \in FixedVals(16)}
  \cup {<<<<0>>, <<3>>, <<255>>, g, k>> : g \in NameVals, k \in {<<>>, <<7>>}}

Patch(t, f) == IF t = 29 THEN [f EXCEPT ![1] = <<0>>] ELSE f     \* LOC: version 0 is the only valid one

Tuples(t) ==
  IF t = 45 THEN IpsecTuples
  ELSE LET sc == Schema(t)
           n == Len(sc)
           one == UNION {{[i \in 1 .. n |-> IF i = k THEN v ELSE Default(sc[i])] : v \in Dom(sc[k])} : k \in 1 .. n}
           two == IF Pairwise
                  THEN UNION {{[i \in 1 .. n |-> IF i = k THEN v ELSE IF i = m THEN w ELSE Default(sc[i])] :
                                  v \in Dom(sc[k]), w \in Dom(sc[m])} : k \in 1 .. n, m \in 1 .. n}
                  ELSE {}
           all == one \cup two \cup {[i \in 1 .. n |-> Extreme(sc[i])]} IN
       {Patch(t, f) : f \in {g \in all : ~(sc = <<Rst>> /\ g[1] = <<>>)}}

\* RDATA encodings that break a structural rule the crate enforces (C10): <<type, bytes>>
BadEncodings ==
  {<<29, <<v>> \o Ramp(15)>> : v \in {1, 255}}                                   \* LOC version not 0
  \cup {<<t, <<0, 1, 0>> \o k>> : t \in {64, 65},                                \* SVCB keys not strictly increasing
         k \in {<<0, 3, 0, 0, 0, 3, 0, 0>>, <<0, 3, 0, 0, 0, 1, 0, 0>>, <<255, 255, 0, 0, 0, 0, 0, 0>>}}
  \cup {<<47, <<0>> \o w>> :                                                      \* NSEC windows not strictly increasing
         w \in {<<1, 1, 64, 1, 1, 64>>, <<1, 1, 64, 0, 1, 64>>, <<255, 1, 1, 0, 1, 1>>,
                \* three windows: every window is compared with its predecessor, not with the first or the largest
                <<0, 1, 64, 2, 1, 64, 1, 1, 64>>, <<0, 1, 64, 1, 1, 64, 1, 1, 64>>, <<0, 1, 64, 2, 1, 64, 2, 1, 64>>,
                <<1, 1, 64, 2, 1, 64, 0, 1, 64>>, <<0, 1, 64, 3, 1, 64, 2, 1, 64, 4, 1, 64>>}}
  \cup {<<13, <<5, 97>>>>, <<13, <<1, 97, 9, 98>>>>, <<16, <<2, 97>>>>, <<16, <<1, 97, 255>>>>,   \* string length overrun
        <<257, <<0, 9, 97>>>>, <<35, <<0, 1, 0, 1, 1, 97, 7, 98>>>>,
        <<41, <<0, 1, 0, 9, 1>>>>, <<41, <<0, 1, 0>>>>,                            \* option length overrun
        <<64, <<0, 1, 0, 0, 1, 0, 9, 1>>>>, <<65, <<0, 1, 0, 0, 1, 0>>>>,          \* SvcParam length overrun
        <<47, <<0, 0, 9, 1>>>>, <<47, <<0, 0>>>>,                                  \* bitmap length overrun
        <<15, <<0, 1, 3, 97>>>>, <<2, <<1>>>>, <<6, <<0, 0, 1, 2, 3>>>>,           \* name / fixed part overrun
        <<1, <<1, 2, 3>>>>, <<28, Ramp(15)>>, <<45, <<1, 1, 2, 9, 9>>>>, <<45, <<1, 4, 2>>>>}
=============================================================================
