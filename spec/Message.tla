------------------------------- MODULE Message -------------------------------
(***************************************************************************)
(* A whole DNS message: RFC 1035 section 4.1 (header, question and RR       *)
(* framing), RFC 6891 (the OPT pseudo-record), RFC 6762 (the top bit of the *)
(* class field: cache-flush / unicast-response).  Ref layer for C02, C04,   *)
(* C05, C09, C10, C11: an independent envelope walker and decoder, and the  *)
(* reference (uncompressed) encoder.                                        *)
(*                                                                          *)
(* The abstract packet is what a caller of the crate can observe:           *)
(*  [id, fs (mask of the 7 flag bits), opcode, rcode (-1 when the enum      *)
(*   collapses the value), opt (<<>> or <<[udp, version, options]>>),       *)
(*   qd, an, ns, ar]                                                        *)
(*  question = [name, qtype, qclass, unicast]                               *)
(*  record   = [name, type, class, cf, ttl (4 bytes), rd (<<>> when the     *)
(*              RDATA is empty, else the field values of RData.tla)]        *)
(***************************************************************************)
EXTENDS RData, Header, Codes

MErr(why) == [ok |-> FALSE, why |-> why]

\* ---- sections -------------------------------------------------------------
RECURSIVE DecQuestions(_, _, _, _)
DecQuestions(b, pos, n, acc) ==
  IF n = 0 THEN [ok |-> TRUE, why |-> "", items |-> acc, next |-> pos, spans |-> <<>>]
  ELSE LET nm == RefDecodeName(b, pos) IN
    IF ~nm.ok THEN [ok |-> FALSE, why |-> "name:" \o nm.why, items |-> <<>>, next |-> -1, spans |-> <<>>]
    ELSE IF nm.next + 4 > Len(b) THEN [ok |-> FALSE, why |-> "truncated", items |-> <<>>, next |-> -1, spans |-> <<>>]
    ELSE LET qc == U16At(b, nm.next + 3) IN
      DecQuestions(b, nm.next + 4, n - 1,
        Append(acc, [name |-> nm.labels, qtype |-> U16At(b, nm.next + 1),
                     qclass |-> qc % 32768, unicast |-> qc >= 32768]))

\* one record starting at pos: [ok, why, rr, next, exact, at, rdat, rdlen]
DecRecord(b, pos) ==
  LET nm == RefDecodeName(b, pos) IN
  IF ~nm.ok THEN [ok |-> FALSE, why |-> "name:" \o nm.why]
  ELSE IF nm.next + 10 > Len(b) THEN [ok |-> FALSE, why |-> "truncated"]
  ELSE LET ty == U16At(b, nm.next + 1)
           cl == U16At(b, nm.next + 3)
           ttl == SubSeq(b, nm.next + 5, nm.next + 8)
           rdlen == U16At(b, nm.next + 9)
           rdat == nm.next + 10 IN
    IF rdat + rdlen > Len(b) THEN [ok |-> FALSE, why |-> "rdlength-overrun"]
    ELSE IF rdlen = 0 /\ ty # 41 THEN
      [ok |-> TRUE, why |-> "", next |-> rdat, exact |-> TRUE, at |-> pos, rdat |-> rdat, rdlen |-> 0,
       rr |-> [name |-> nm.labels, type |-> ty, class |-> cl % 32768, cf |-> cl >= 32768, ttl |-> ttl, rd |-> <<>>]]
    ELSE LET d == DecodeRData(ty, b, rdat, rdat + rdlen) IN
      IF ~d.ok THEN [ok |-> FALSE, why |-> "rdata:" \o d.why]
      ELSE [ok |-> TRUE, why |-> "", next |-> rdat + rdlen, exact |-> d.exact, at |-> pos, rdat |-> rdat, rdlen |-> rdlen,
            rr |-> [name |-> nm.labels, type |-> ty,
                    class |-> IF ty = 41 THEN cl ELSE cl % 32768,
                    cf |-> IF ty = 41 THEN FALSE ELSE cl >= 32768,
                    ttl |-> ttl, rd |-> d.f]]

RECURSIVE DecRecords(_, _, _, _, _, _)
DecRecords(b, pos, n, acc, exact, spans) ==
  IF n = 0 THEN [ok |-> TRUE, why |-> "", items |-> acc, next |-> pos, exact |-> exact, spans |-> spans]
  ELSE LET r == DecRecord(b, pos) IN
    IF ~r.ok THEN [ok |-> FALSE, why |-> r.why, items |-> <<>>, next |-> -1, exact |-> FALSE, spans |-> <<>>]
    ELSE DecRecords(b, r.next, n - 1, Append(acc, r.rr), exact /\ r.exact,
                    Append(spans, [at |-> r.at, rdat |-> r.rdat, rdlen |-> r.rdlen, type |-> r.rr.type]))

\* ---- envelope walker --------------------------------------------------------
\* The offsets (0-based) at which the entries of a message begin, found from the header counts, the
\* names, the fixed 4-byte / 10-byte parts and each record's RDLENGTH only (no typed content): the
\* offsets of all entries up to and including the first one whose envelope is broken.
RECURSIVE WalkEntries(_, _, _, _, _)
WalkEntries(b, pos, nq, nr, acc) ==
  IF nq = 0 /\ nr = 0 THEN acc
  ELSE LET nm == RefDecodeName(b, pos)
           fixed == IF nq > 0 THEN 4 ELSE 10 IN
    IF ~nm.ok \/ nm.next + fixed > Len(b) THEN Append(acc, pos)
    ELSE IF nq > 0 THEN WalkEntries(b, nm.next + 4, nq - 1, nr, Append(acc, pos))
    ELSE LET rdlen == U16At(b, nm.next + 9) IN
      IF nm.next + 10 + rdlen > Len(b) THEN Append(acc, pos)
      ELSE WalkEntries(b, nm.next + 10 + rdlen, 0, nr - 1, Append(acc, pos))
EnvelopeStarts(b) ==
  IF Len(b) < 12 THEN <<>>
  ELSE WalkEntries(b, 12, U16At(b, 5), U16At(b, 7) + U16At(b, 9) + U16At(b, 11), <<>>)

\* ---- EDNS -------------------------------------------------------------------
FirstOpt(ar) == IF \E i \in 1 .. Len(ar) : ar[i].type = 41
                THEN CHOOSE i \in 1 .. Len(ar) : ar[i].type = 41 /\ \A j \in 1 .. i - 1 : ar[j].type # 41
                ELSE 0
RemoveAt(s, i) == SubSeq(s, 1, i - 1) \o SubSeq(s, i + 1, Len(s))

\* ---- whole message ----------------------------------------------------------
\* [ok, why, pkt, exact (every RDATA filled its RDLENGTH exactly), end (bytes consumed), spans]
RefDecode(b) ==
  IF Len(b) < 12 THEN MErr("short-header")
  ELSE LET h == HdrDecode(b) IN
    IF h.z THEN MErr("z-bit")
    ELSE LET q == DecQuestions(b, 12, h.qd, <<>>) IN
      IF ~q.ok THEN MErr("qd:" \o q.why)
      ELSE LET an == DecRecords(b, q.next, h.an, <<>>, TRUE, <<>>) IN
        IF ~an.ok THEN MErr("an:" \o an.why)
        ELSE LET ns == DecRecords(b, an.next, h.ns, <<>>, TRUE, <<>>) IN
          IF ~ns.ok THEN MErr("ns:" \o ns.why)
          ELSE LET ar == DecRecords(b, ns.next, h.ar, <<>>, TRUE, <<>>) IN
            IF ~ar.ok THEN MErr("ar:" \o ar.why)
            ELSE LET oi == FirstOpt(ar.items)
                     o == IF oi = 0 THEN <<>> ELSE <<ar.items[oi]>>
                     rc == IF oi = 0 THEN Obs(h.rcode, NamedRcodes4)
                           ELSE Obs(o[1].ttl[1] * 16 + h.rcode, NamedRcodes) IN
              [ok |-> TRUE, why |-> "",
               exact |-> an.exact /\ ns.exact /\ ar.exact,
               end |-> ar.next,
               spans |-> an.spans \o ns.spans \o ar.spans,
               counts |-> <<h.qd, h.an, h.ns, h.ar>>,
               optIndex |-> oi,
               raw |-> [qd |-> q.items, an |-> an.items, ns |-> ns.items, ar |-> ar.items],
               pkt |-> [id |-> h.id, fs |-> MaskOf(h.fs), opcode |-> Obs(h.opcode, NamedOpcodes), rcode |-> rc,
                        opt |-> IF oi = 0 THEN <<>>
                                ELSE <<[udp |-> o[1].class, version |-> o[1].ttl[2], options |-> o[1].rd[1]]>>,
                        qd |-> q.items, an |-> an.items, ns |-> ns.items,
                        ar |-> IF oi = 0 THEN ar.items ELSE RemoveAt(ar.items, oi)]]

\* ---- reference encoder (plain) ------------------------------------------------
EncQuestion(q) ==
  EncodeNamePlain(q.name) \o BE16(q.qtype) \o BE16(q.qclass + (IF q.unicast THEN 32768 ELSE 0))

EncRecord(r) ==
  LET rd == IF r.rd = <<>> THEN <<>> ELSE EncodeRData(r.type, r.rd) IN
  EncodeNamePlain(r.name) \o BE16(r.type) \o BE16(r.class + (IF r.cf THEN 32768 ELSE 0)) \o r.ttl
    \o BE16(Len(rd)) \o rd

\* RFC 6891 6.1.3: TTL = extended RCODE (upper 8 of 12 bits), VERSION, DO + Z (16 bits, zero here)
OptRecord(p) ==
  [name |-> <<>>, type |-> 41, class |-> p.opt[1].udp, cf |-> FALSE,
   ttl |-> <<(p.rcode \div 16) % 256, p.opt[1].version, 0, 0>>,
   rd |-> <<p.opt[1].options>>]

RECURSIVE CatMap(_, _)
CatMap(Op(_), s) == IF s = <<>> THEN <<>> ELSE Op(Head(s)) \o CatMap(Op, Tail(s))

\* p must carry numeric opcode / rcode (a packet in the builder's domain)
RefEncodePlain(p) ==
  LET fsn == {n \in FlagNames : Bit(p.fs, FlagBit(n))}
      arc == Len(p.ar) + (IF p.opt = <<>> THEN 0 ELSE 1) IN
  HdrEncode(p.id, fsn, p.opcode, p.rcode % 16, Len(p.qd), Len(p.an), Len(p.ns), arc)
    \o CatMap(EncQuestion, p.qd) \o CatMap(EncRecord, p.an) \o CatMap(EncRecord, p.ns)
    \o (IF p.opt = <<>> THEN <<>> ELSE EncRecord(OptRecord(p)))
    \o CatMap(EncRecord, p.ar)

\* re-encode a decoded message exactly as it was laid out, but without compression: equal to
\* the input iff the input is an uncompressed, exactly-framed message (whatever its header bits)
PlainReencode(b, ref) ==
  SubSeq(b, 1, 12) \o CatMap(EncQuestion, ref.raw.qd) \o CatMap(EncRecord, ref.raw.an)
    \o CatMap(EncRecord, ref.raw.ns) \o CatMap(EncRecord, ref.raw.ar)

\* a packet the builder API can express and the wire can carry
Encodable(p) ==
  /\ p.opcode \in NamedOpcodes
  /\ p.rcode \in (IF p.opt = <<>> THEN NamedRcodes4 ELSE NamedRcodes)
  /\ \A i \in 1 .. Len(p.qd) : QTypeSupported(p.qd[i].qtype) /\ QClassSupported(p.qd[i].qclass)
                                 /\ ValidLabels(p.qd[i].name)
  /\ \A s \in {p.an, p.ns, p.ar} : \A i \in 1 .. Len(s) :
        /\ s[i].type # 41 => s[i].class \in SupportedClasses
        /\ ValidLabels(s[i].name)
=============================================================================
