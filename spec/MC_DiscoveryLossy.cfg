SPECIFICATION Spec
CONSTANTS
  p1 = p1
  p2 = p2
  p3 = p3
  Peers <- TwoPeers
  Ported <- TwoPeers
  TTL = 12
  MaxTime = 14
  Lossy = TRUE
  KeepLater = FALSE
  Async <- NoPeers
INVARIANT TypeOK
INVARIANT RemoveSaysGoodbye
INVARIANT GoodbyeHonoured
INVARIANT NeverPartial
INVARIANT NothingForeign
CHECK_DEADLOCK FALSE
