----------------------------- MODULE MC_Compress -----------------------------
(***************************************************************************)
(* Impl layer: the crate's compressing name writer (Name::compress_append,  *)
(* driven by Packet::write_compressed_to) as a state machine, one action    *)
(* per loop arm, checked exhaustively against the Ref decoder and the C07   *)
(* rules for ALL sequences of up to MaxNames names over a two-letter label  *)
(* universe, each written in a compressible (M) or non-compressible (N)     *)
(* position.  The pointer field is scaled (PtrLimit = 15: 4 bits) so that   *)
(* messages of a few bytes reach "a name first appears beyond the largest   *)
(* expressible offset".                                                     *)
(*                                                                          *)
(*  Guard    TRUE : offsets > PtrLimit are never recorded (repaired code)   *)
(*           FALSE: every offset is recorded and emitted truncated (pinned) *)
(*  Relative TRUE : recorded offsets are message-relative (repaired code)   *)
(*           FALSE: absolute stream positions of a writer starting at Origin*)
(***************************************************************************)
EXTENDS NameWire, TLC

CONSTANTS PtrLimit, MaxNames, Guard, Relative, Origins

Lab == {<<1>>, <<2>>}
NameSet == {<<>>} \cup {<<x>> : x \in Lab} \cup {<<x, y>> : x, y \in Lab} \cup {<<x, y, z>> : x, y, z \in Lab}
Items == {[labels |-> n, cls |-> c] : n \in NameSet, c \in {"M", "N"}}

VARIABLES items, origin, out, refs, idx, li, starts, pc
vars == <<items, origin, out, refs, idx, li, starts, pc>>

Init == /\ items \in UNION {[1 .. n -> Items] : n \in 1 .. MaxNames}
        /\ origin \in Origins
        /\ out = <<>> /\ refs = <<>> /\ idx = 1 /\ li = 1 /\ starts = <<>> /\ pc = "begin"

\* refs: sequence of <<suffix, offset>> (the HashMap of the crate)
Lookup(sfx) == IF \E i \in 1 .. Len(refs) : refs[i][1] = sfx
               THEN (CHOOSE i \in 1 .. Len(refs) : refs[i][1] = sfx) ELSE 0
StreamPos == (IF Relative THEN 0 ELSE origin) + Len(out)
Cur == items[idx]
Suffix == SubSeq(Cur.labels, li, Len(Cur.labels))

BeginName == /\ pc = "begin" /\ idx <= Len(items)
             /\ starts' = Append(starts, Len(out))
             /\ pc' = IF Cur.cls = "N" THEN "plain" ELSE "loop"
             /\ li' = 1
             /\ UNCHANGED <<items, origin, out, refs, idx>>

\* non-compressible position: the name is written in full and nothing is recorded
EmitPlainName == /\ pc = "plain"
                 /\ out' = out \o EncodeNamePlain(Cur.labels)
                 /\ idx' = idx + 1 /\ pc' = "begin"
                 /\ UNCHANGED <<items, origin, refs, li, starts>>

\* the table part of the two loop arms, as functions of the position the writer reports (the step-level
\* trace specification TraceCompSteps.tla binds exactly these to the code's hook events)
CanPointer == pc = "loop" /\ li <= Len(Cur.labels) /\ Lookup(Suffix) # 0
PointerValue == refs[Lookup(Suffix)][2] % (PtrLimit + 1)          \* "as u16 | 0xC000": truncated
CanLabel == pc = "loop" /\ li <= Len(Cur.labels) /\ Lookup(Suffix) = 0
TableAfterLabel(position) == IF Guard /\ position > PtrLimit THEN refs ELSE Append(refs, <<Suffix, position>>)

EmitPointer == /\ CanPointer
               /\ out' = out \o <<192 + PointerValue \div 256, PointerValue % 256>>
               /\ idx' = idx + 1 /\ pc' = "begin"
               /\ UNCHANGED <<items, origin, refs, li, starts>>

EmitLabel == /\ CanLabel
             /\ refs' = TableAfterLabel(StreamPos)
             /\ out' = out \o <<Len(Cur.labels[li])>> \o Cur.labels[li]
             /\ li' = li + 1
             /\ UNCHANGED <<items, origin, idx, starts, pc>>

EmitRoot == /\ pc = "loop" /\ li > Len(Cur.labels)
            /\ out' = out \o <<0>>
            /\ idx' = idx + 1 /\ pc' = "begin"
            /\ UNCHANGED <<items, origin, refs, li, starts>>

Finish == /\ pc = "begin" /\ idx > Len(items) /\ pc' = "done"
          /\ UNCHANGED <<items, origin, out, refs, idx, li, starts>>

Next == BeginName \/ EmitPlainName \/ EmitPointer \/ EmitLabel \/ EmitRoot \/ Finish
Spec == Init /\ [][Next]_vars

\* the pointer field is 2 bytes: 11xxxxxx xxxxxxxx; with PtrLimit = 15 only 4 bits are usable
\* and decoding uses the same byte semantics as the real wire (offset = low 14 bits)
Decoded(k) == RefDecodeName(out, starts[k])

\* C03: the compressed output expands to the intended names
Transparent == pc = "done" => \A k \in 1 .. Len(items) : Decoded(k).ok /\ Decoded(k).labels = items[k].labels

\* C03: never longer than the plain encoding
RECURSIVE PlainLen(_)
PlainLen(its) == IF its = <<>> THEN 0 ELSE WireLen(Head(its).labels) + PlainLen(Tail(its))
NotLonger == pc = "done" => Len(out) <= PlainLen(items)

\* C07: pointers are backwards, within the limit, message-relative; N positions are never compressed;
\* a repeated whole name in an M position is a bare pointer
IsPtrAt(p) == p < Len(out) /\ out[p + 1] >= 192
RECURSIVE NameEnd(_)
NameEnd(p) == IF out[p + 1] = 0 THEN p + 1 ELSE IF out[p + 1] >= 192 THEN p + 2 ELSE NameEnd(p + 1 + out[p + 1])
RECURSIVE TermAt(_)
TermAt(p) == IF out[p + 1] = 0 \/ out[p + 1] >= 192 THEN p ELSE TermAt(p + 1 + out[p + 1])
PointerRules ==
  pc = "done" => \A k \in 1 .. Len(items) :
    LET t == TermAt(starts[k])
        isptr == out[t + 1] >= 192
        v == IF isptr THEN (out[t + 1] - 192) * 256 + out[t + 2] ELSE -1 IN
    /\ isptr => (v < starts[k] /\ v <= PtrLimit)
    /\ items[k].cls = "N" => ~isptr
    /\ (items[k].cls = "M" /\ items[k].labels # <<>> /\
        \E j \in 1 .. k - 1 : items[j].cls = "M" /\ items[j].labels = items[k].labels /\ starts[j] <= PtrLimit)
         => (isptr /\ t = starts[k])
=============================================================================
