SPECIFICATION Spec
CONSTANTS
  Symbols = {97, 59, 61, 315, 317, 233, 128512}
  L = 5
INVARIANT Identities
INVARIANT Emit
CHECK_DEADLOCK FALSE
