SPECIFICATION Spec
INVARIANT OrderIrrelevant
INVARIANT Emit
CHECK_DEADLOCK FALSE
