-------------------------------- MODULE Store --------------------------------
(***************************************************************************)
(* The mDNS record store and the reply function (C13, C20).                 *)
(*                                                                          *)
(* Ref layer: the abstract store is a set of authoritative record keys and  *)
(* a map from cached record keys to their expiry; a record key is (owner,   *)
(* class, type, rdata) -- TTL and cache-flush are not part of a record's    *)
(* identity.  Reply bounds follow RFC 6762 section 6 as stated in C13.      *)
(*                                                                          *)
(* Impl layer: the store as the crate implements it -- a radix trie keyed   *)
(* by the reversed labels of the owner name, exact lookup with get(),       *)
(* subdomain lookup with subtrie() which exists only where a trie node sits *)
(* exactly at the key (a stored key, or a branch point at nibble            *)
(* granularity).  KeyMode selects the key construction:                     *)
(*   "lenprefix"  each label preceded by its length (repaired code)         *)
(*   "concat"     labels concatenated without separator (pinned tree)       *)
(***************************************************************************)
EXTENDS Naturals, Integers, Sequences, FiniteSets, Codes, NameText

KeyOf(r) == [name |-> r.name, class |-> r.class, type |-> r.type, rd |-> r.rd]

\* ------------------------------------------------------------------ Ref: reply bounds
QMatches(r, q) ==
  /\ (MatchDefined(q.qtype) => MatchQType(r.type, q.qtype))
  /\ MatchQClass(r.class, q.qclass)

OwnerRelated(owner, qname) == owner = qname \/ IsSubdomainOf(owner, qname)

\* records that MAY be answered / MUST be answered, as sets of keys
UpperAnswers(auth, qd) ==
  {k \in auth : \E i \in 1 .. Len(qd) : OwnerRelated(k.name, qd[i].name) /\ QMatches(k, qd[i])}
LowerAnswers(auth, qd) ==
  {k \in auth : \E i \in 1 .. Len(qd) :
       k.name = qd[i].name /\ MatchDefined(qd[i].qtype) /\ MatchQType(k.type, qd[i].qtype)
       /\ MatchQClass(k.class, qd[i].qclass)}

SrvTarget(k) == k.rd[4]         \* SRV: priority, weight, port, target
AdditionalOK(auth, answers, a) ==
  /\ a \in auth /\ a.type \in {1, 28}
  /\ \E s \in answers : s.type = 33 /\ s.rd # <<>> /\ SrvTarget(s) = a.name

\* ------------------------------------------------------------------ Impl: refresh schedule
\* ExpirationInfo::new: when a cached record should be queried for again (seconds after it was received):
\* at once for TTL 0, at half of a short TTL, at 80% of a TTL of a minute or more
RefreshDelay(ttl) == IF ttl = 0 THEN 0 ELSE IF ttl < 60 THEN ttl \div 2 ELSE (ttl \div 10) * 8

\* ------------------------------------------------------------------ Impl: trie keys
Nibbles(bytes) == [i \in 1 .. 2 * Len(bytes) |->
                     IF i % 2 = 1 THEN bytes[(i + 1) \div 2] \div 16 ELSE bytes[i \div 2] % 16]

RECURSIVE RevCat(_, _)
RevCat(labels, lenprefix) ==
  IF labels = <<>> THEN <<>>
  ELSE LET last == labels[Len(labels)] IN
       (IF lenprefix THEN <<Len(last)>> ELSE <<>>) \o last \o RevCat(SubSeq(labels, 1, Len(labels) - 1), lenprefix)

TrieKey(name, mode) == Nibbles(RevCat(name, mode = "lenprefix"))

IsPrefix(p, s) == Len(p) <= Len(s) /\ SubSeq(s, 1, Len(p)) = p
RECURSIVE LcpLen(_, _, _)
LcpLen(a, b, i) == IF i > Len(a) \/ i > Len(b) \/ a[i] # b[i] THEN i - 1 ELSE LcpLen(a, b, i + 1)
Lcp(a, b) == SubSeq(a, 1, LcpLen(a, b, 1))

\* keys: set of trie keys ever inserted since the last clear
\* (the root node always exists: the empty key finds it even in an empty trie)
TrieNodes(keys) == keys \cup {Lcp(a, b) : a, b \in keys} \cup {<<>>}

\* the owner names the implementation looks at for a question name
ImplOwners(names, qname, subdomains, mode) ==
  LET keys == {TrieKey(n, mode) : n \in names}
      k == TrieKey(qname, mode) IN
  IF subdomains
  THEN IF k \in TrieNodes(keys) THEN {n \in names : IsPrefix(k, TrieKey(n, mode))} ELSE {}
  ELSE {n \in names : TrieKey(n, mode) = k}

\* ResourceRecord::match_qtype as implemented, including the question types C18 leaves unconstrained
ImplMatchQType(t, q) == CASE q = 252 -> TRUE        \* AXFR: everything
                          [] q = 254 -> t = 15      \* MAILA: MX
                          [] q = 251 -> FALSE       \* IXFR: nothing
                          [] OTHER -> MatchQType(t, q)

\* what build_reply answers: for every question, the authoritative records found under the
\* question name (with subdomains) that match type and class
ImplAnswers(auth, names, qd, mode) ==
  {k \in auth : \E i \in 1 .. Len(qd) :
       /\ k.name \in ImplOwners(names, qd[i].name, TRUE, mode)
       /\ ImplMatchQType(k.type, qd[i].qtype)
       /\ MatchQClass(k.class, qd[i].qclass)}

\* the additional records build_reply attaches: address records found at exactly the target of an
\* included SRV answer (lookup without subdomains)
ImplAdditionals(auth, names, answers, mode) ==
  {k \in auth : k.type \in {1, 28} /\ \E s \in answers :
       s.type = 33 /\ s.rd # <<>> /\ k.name \in ImplOwners(names, SrvTarget(s), FALSE, mode)}
=============================================================================
