SPECIFICATION Spec
CONSTANTS
  Pairwise = FALSE
  MaxLabel = 63
  MaxName = 255
INVARIANT Inverse
INVARIANT MessageInverse
INVARIANT PtrInverse
INVARIANT Emit
CHECK_DEADLOCK FALSE
