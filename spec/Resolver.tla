------------------------------ MODULE Resolver ------------------------------
(***************************************************************************)
(* The one-shot resolver of simple-mdns (OneShotMdnsResolver, sync and      *)
(* tokio flavours) as the code implements it: what query_service_address    *)
(* and query_service_address_and_port return for the sequence of datagrams  *)
(* that arrive after the query was sent and before the timeout.             *)
(*                                                                          *)
(* A datagram is abstracted to [qr, id, an, ar]; an / ar are sequences of   *)
(* records [n |-> "q" (the queried name) | "o" (another name),              *)
(*          t |-> "A" | "AAAA" | "SRV" | "TXT", v |-> a small number (last  *)
(* address octet, or the port)].                                            *)
(*                                                                          *)
(*  get_next_response   skips everything that is not a response with id 0   *)
(*                      and at least one answer (header peek)               *)
(*  query_service_address   the FIRST answer owned by the queried name of   *)
(*                      the first such response that has one decides: A ->  *)
(*                      that address, AAAA -> that address, anything else   *)
(*                      -> None at once                                     *)
(*  query_service_address_and_port   per response: the port of the first    *)
(*                      SRV answer owned by the name, the address of the    *)
(*                      first A record OWNED BY THE SAME NAME among the     *)
(*                      additionals; a port without address starts a nested *)
(*                      address query (which consumes the datagrams that    *)
(*                      follow); both -> Some, otherwise on to the next     *)
(***************************************************************************)
EXTENDS Naturals, Sequences

Accept(r) == r.qr /\ r.id = 0 /\ r.an # <<>>

FirstIdx(s, P(_)) == IF \E i \in 1 .. Len(s) : P(s[i])
                     THEN CHOOSE i \in 1 .. Len(s) : P(s[i]) /\ \A j \in 1 .. i - 1 : ~P(s[j])
                     ELSE 0

IsQ(x) == x.n = "q"
\* <<outcome, datagrams left>>; outcome = <<"none">> | <<"v4", v>> | <<"v6", v>>
RECURSIVE AddrRest(_)
AddrRest(rs) ==
  IF rs = <<>> THEN <<<<"none">>, <<>>>>                        \* timeout
  ELSE LET r == Head(rs)
           i == IF Accept(r) THEN FirstIdx(r.an, IsQ) ELSE 0 IN
       IF i = 0 THEN AddrRest(Tail(rs))
       ELSE <<CASE r.an[i].t = "A" -> <<"v4", r.an[i].v>>
                [] r.an[i].t = "AAAA" -> <<"v6", r.an[i].v>>
                [] OTHER -> <<"none">>,
              Tail(rs)>>
Addr(rs) == AddrRest(rs)[1]

IsQSrv(x) == x.n = "q" /\ x.t = "SRV"
IsQA(x) == x.n = "q" /\ x.t = "A"
\* outcome = <<"none">> | <<"some", kind, addr, port>>
RECURSIVE AddrPort(_)
AddrPort(rs) ==
  IF rs = <<>> THEN <<"none">>
  ELSE LET r == Head(rs) IN
       IF ~Accept(r) THEN AddrPort(Tail(rs))
       ELSE LET pi == FirstIdx(r.an, IsQSrv)
                ai == FirstIdx(r.ar, IsQA) IN
            IF pi # 0 /\ ai # 0 THEN <<"some", "v4", r.ar[ai].v, r.an[pi].v>>
            ELSE IF pi # 0 THEN
                 LET nested == AddrRest(Tail(rs)) IN
                 IF nested[1][1] # "none" THEN <<"some", nested[1][1], nested[1][2], r.an[pi].v>>
                 ELSE AddrPort(nested[2])
            ELSE AddrPort(Tail(rs))

Outcome(mode, rs) == IF mode = "addr" THEN Addr(rs) ELSE AddrPort(rs)

\* never an address or a port that no datagram offered for the queried name
Offered(rs) == {x.v : x \in UNION {{rs[i].an[j] : j \in 1 .. Len(rs[i].an)} \cup {rs[i].ar[j] : j \in 1 .. Len(rs[i].ar)} : i \in 1 .. Len(rs)}}
Sound(mode, rs) ==
  LET o == Outcome(mode, rs) IN
  (o[1] \in {"v4", "v6"} => o[2] \in Offered(rs)) /\ (o[1] = "some" => o[3] \in Offered(rs) /\ o[4] \in Offered(rs))
=============================================================================
