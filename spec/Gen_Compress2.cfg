SPECIFICATION Spec
CONSTANTS
  Pairwise = FALSE
  MaxLabel = 63
  MaxName = 255
  Shape = 2
INVARIANT AllDecode
INVARIANT Emit
CHECK_DEADLOCK FALSE
