------------------------------- MODULE Compress -------------------------------
(***************************************************************************)
(* Name compression in emitted messages (RFC 1035 4.1.4, RFC 3597 section   *)
(* 4, and the per-type rules of RFC 2782 / 3403 / 2230 / 4034 / 4025 /      *)
(* 9460).  Ref layer for C07: an independent walker that knows every type's *)
(* schema locates each name occurrence ("site") of a message and describes  *)
(* its in-place encoding; the C07 rules are predicates over the sites.      *)
(***************************************************************************)
EXTENDS Message

CONSTANT PtrLimit     \* 16383: the largest offset a 14-bit pointer can express

\* in-place shape of the name at pos: offsets of its label starts, how it terminates
RECURSIVE InPlace(_, _, _)
InPlace(b, pos, starts) ==
  LET c == b[pos + 1] IN
  IF c = 0 THEN [starts |-> starts, term |-> "root", termAt |-> pos, ptr |-> -1, next |-> pos + 1]
  ELSE IF c >= 192 THEN [starts |-> starts, term |-> "ptr", termAt |-> pos,
                         ptr |-> (c - 192) * 256 + b[pos + 2], next |-> pos + 2]
  ELSE InPlace(b, pos + 1 + c, Append(starts, pos))

Site(b, pos, cls) ==
  LET ip == InPlace(b, pos, <<>>) IN
  [pos |-> pos, cls |-> cls, labels |-> RefDecodeName(b, pos).labels,
   starts |-> ip.starts, term |-> ip.term, termAt |-> ip.termAt, ptr |-> ip.ptr, next |-> ip.next]

\* name sites inside an RDATA span, by schema
RECURSIVE FieldSites(_, _, _, _, _, _, _)
FieldSites(sc, i, b, pos, hi, cls, gwt) ==
  IF i > Len(sc) THEN <<>>
  ELSE LET d == sc[i] IN
    CASE d.t = "F" -> FieldSites(sc, i + 1, b, pos + d.n, hi, cls, IF i = 2 THEN b[pos + 1] ELSE gwt)
      [] d.t = "N" -> LET s == Site(b, pos, cls) IN <<s>> \o FieldSites(sc, i + 1, b, s.next, hi, cls, gwt)
      [] d.t = "S" -> FieldSites(sc, i + 1, b, pos + 1 + b[pos + 1], hi, cls, gwt)
      [] d.t = "GW" -> CASE gwt = 0 -> FieldSites(sc, i + 1, b, pos, hi, cls, gwt)
                         [] gwt = 1 -> FieldSites(sc, i + 1, b, pos + 4, hi, cls, gwt)
                         [] gwt = 2 -> FieldSites(sc, i + 1, b, pos + 16, hi, cls, gwt)
                         [] OTHER -> LET s == Site(b, pos, cls) IN <<s>> \o FieldSites(sc, i + 1, b, s.next, hi, cls, gwt)
      [] OTHER -> <<>>       \* R, SS, TLV, TLVI, NW: run to the end, no names

RECURSIVE QuestionSites(_, _, _)
QuestionSites(b, pos, n) ==
  IF n = 0 THEN [sites |-> <<>>, next |-> pos]
  ELSE LET s == Site(b, pos, "M")
           rest == QuestionSites(b, s.next + 4, n - 1) IN
       [sites |-> <<s>> \o rest.sites, next |-> rest.next]

RECURSIVE RecordSites(_, _, _)
RecordSites(b, pos, n) ==
  IF n = 0 THEN [sites |-> <<>>, next |-> pos]
  ELSE LET s == Site(b, pos, "M")
           ty == U16At(b, s.next + 1)
           rdlen == U16At(b, s.next + 9)
           rdat == s.next + 10
           inner == IF rdlen = 0 THEN <<>> ELSE FieldSites(Schema(ty), 1, b, rdat, rdat + rdlen, CompressClass(ty), 0)
           rest == RecordSites(b, rdat + rdlen, n - 1) IN
       [sites |-> <<s>> \o inner \o rest.sites, next |-> rest.next]

\* all name sites of a message the reference decoder accepts, in wire order
Sites(b) ==
  LET h == HdrDecode(b)
      q == QuestionSites(b, 12, h.qd)
      r == RecordSites(b, q.next, h.an + h.ns + h.ar) IN
  q.sites \o r.sites

Boundaries(s) == {s.starts[i] : i \in 1 .. Len(s.starts)} \cup {s.termAt}

\* C07, pointer validity: strictly backwards, to a label boundary of an earlier-written name
PtrValid(ss, k) ==
  ss[k].term = "ptr" =>
    /\ ss[k].ptr < ss[k].pos
    /\ ss[k].ptr <= PtrLimit
    /\ \E j \in 1 .. k - 1 : ss[k].ptr \in Boundaries(ss[j])

\* C07, no compression where the type's specification forbids it
PtrForbidden(ss, k) == ss[k].cls = "N" => ss[k].term = "root"

\* C07, a repeated whole name in a compressible position is a bare pointer
PtrRequired(ss, k) ==
  (/\ ss[k].cls = "M" /\ ss[k].labels # <<>>
   /\ \E j \in 1 .. k - 1 : ss[j].cls = "M" /\ ss[j].labels = ss[k].labels /\ ss[j].pos <= PtrLimit)
  => (ss[k].starts = <<>> /\ ss[k].term = "ptr")
=============================================================================
