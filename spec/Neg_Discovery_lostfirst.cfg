SPECIFICATION Spec
CONSTANTS
  p1 = p1
  p2 = p2
  p3 = p3
  Peers <- TwoPeers
  Ported <- TwoPeers
  TTL = 12
  MaxTime = 30
  Lossy = TRUE
  KeepLater = FALSE
  DropUntil = 2
  Async <- NoPeers
INVARIANT TypeOK
INVARIANT RepairedAfterLoss
CHECK_DEADLOCK FALSE
