---------------------------- MODULE Gen_NameText ----------------------------
(* Generator and self-consistency model for C17.  TLC enumerates every string  *)
(* up to length L over the symbol alphabet; for each it checks the Ref-level   *)
(* identities (display of the split labels splits back to the same labels;     *)
(* accepted labels are non-empty and dot-free) and prints the string as a case *)
(* for the harness.                                                            *)
EXTENDS NameText, TLC, Json

CONSTANTS Symbols, L
VARIABLE s

Init == s \in UNION {[1 .. n -> Symbols] : n \in 0 .. L}
Next == UNCHANGED s
Spec == Init /\ [][Next]_s

RefIdentities ==
  LET ls == SplitLabels(s) IN
  /\ SplitLabels(DisplayText(ls)) = ls
  /\ \A i \in 1 .. Len(ls) : ls[i] # <<>> /\ Dot \notin {ls[i][j] : j \in 1 .. Len(ls[i])}
  /\ TextAccept(s) => TextAccept(DisplayText(ls))
  /\ \A k \in 0 .. Len(ls) :
       LET y == SubSeq(ls, k + 1, Len(ls)) IN
       /\ IsSubdomainOf(ls, y) <=> k > 0
       /\ k > 0 => Without(ls, y) \o y = ls

Emit == PrintT(<<"CASE", ToJson([s |-> s])>>)
=============================================================================
