------------------------------- MODULE Gen_Edns -------------------------------
(* C09 generator: third-party EDNS(0) messages encoded by the reference encoder  *)
(* exactly as RFC 6891 6.1.2/6.1.3 lays them out -- OPT first / in the middle /   *)
(* last among the additional records, DO bit set or clear, every named 12-bit     *)
(* RCODE split between header and OPT TTL, versions and payload sizes at their    *)
(* boundaries, several option lists.  Also checks Ref self-consistency.           *)
EXTENDS Domains, TLC, Json

VARIABLES rc, ver, udp, opts, nar, pos, dobit, two
vars == <<rc, ver, udp, opts, nar, pos, dobit, two>>

Other(i) == [name |-> <<<<120 + i>>, La>>, type |-> 1, class |-> 1, cf |-> FALSE, ttl |-> <<0, 0, 0, 9>>,
             rd |-> <<<<10, 0, 0, i>>>>]

Init ==
  \/ /\ rc \in NamedRcodes /\ ver \in {0, 1, 128, 255} /\ nar \in 0 .. 3 /\ pos \in 0 .. nar
     /\ udp = 1232 /\ opts = <<<<3, <<9>>>>>> /\ dobit = 0 /\ two = FALSE
  \* a second, different OPT record at the end of the additional section (RFC 6891 says at most one; a
  \* parser that accepts such a message must still re-serialise it faithfully: C11)
  \/ /\ rc \in {0, 16} /\ ver \in {0, 3} /\ nar \in 0 .. 2 /\ pos \in 0 .. nar
     /\ udp = 1232 /\ opts = <<<<3, <<9>>>>>> /\ dobit = 0 /\ two = TRUE
  \* response codes the library has no name for (unassigned low nibble 11..15, unassigned 12-bit values):
  \* shown as "reserved", and whatever is shown must survive re-serialisation (C11)
  \/ /\ rc \in {11, 13, 15, 27, 31, 2049, 4095} /\ ver = 0 /\ nar \in 0 .. 1 /\ pos = 0
     /\ udp = 1232 /\ opts = <<<<3, <<9>>>>>> /\ dobit = 0 /\ two = FALSE
  \/ /\ rc = 16 /\ ver = 0 /\ nar = 1 /\ pos \in 0 .. 1
     /\ udp \in {0, 512, 65535} /\ opts \in Dom(Tlv) /\ dobit \in {0, 128} /\ two = FALSE
Next == UNCHANGED vars
Spec == Init /\ [][Next]_vars

OptRR == [name |-> <<>>, type |-> 41, class |-> udp, cf |-> FALSE,
          ttl |-> <<(rc \div 16) % 256, ver, dobit, 0>>, rd |-> <<opts>>]
Others == [i \in 1 .. nar |-> Other(i)]
Opt2 == [name |-> <<>>, type |-> 41, class |-> 4096, cf |-> FALSE, ttl |-> <<1, 1, 0, 0>>, rd |-> <<<<<<10, <<1, 2, 3, 4, 5, 6, 7, 8>>>>>>>>]
ArRaw == SubSeq(Others, 1, pos) \o <<OptRR>> \o SubSeq(Others, pos + 1, nar) \o (IF two THEN <<Opt2>> ELSE <<>>)

Msg == HdrEncode(7, {"qr", "ra"}, 0, rc % 16, 0, 0, 0, Len(ArRaw)) \o CatMap(EncRecord, ArRaw)

Expected == [id |-> 7, fs |-> MaskOf({"qr", "ra"}), opcode |-> 0, rcode |-> Obs(rc, NamedRcodes),
             opt |-> <<[udp |-> udp, version |-> ver, options |-> opts]>>,
             qd |-> <<>>, an |-> <<>>, ns |-> <<>>, ar |-> Others \o (IF two THEN <<Opt2>> ELSE <<>>)]

RefAgrees == LET d == RefDecode(Msg) IN d.ok /\ d.exact /\ d.end = Len(Msg) /\ d.pkt = Expected

Emit == PrintT(<<"CASE", ToJson([msg |-> Msg, pos |-> pos, nar |-> nar, dobit |-> dobit])>>)
=============================================================================
