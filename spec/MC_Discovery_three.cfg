SPECIFICATION Spec
CONSTANTS
  p1 = p1
  p2 = p2
  p3 = p3
  Peers <- ThreePeers
  Ported <- ThreePeers
  TTL = 12
  MaxTime = 7
  Lossy = FALSE
  KeepLater = FALSE
INVARIANT TypeOK
INVARIANT GoodbyeHonoured
INVARIANT NeverPartial
INVARIANT NothingForeign
INVARIANT Prompt
INVARIANT Stable
CONSTRAINT Bounded
CHECK_DEADLOCK FALSE
