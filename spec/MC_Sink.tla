------------------------------- MODULE MC_Sink -------------------------------
(***************************************************************************)
(* Impl layer for C04: the writer-based serialisers as a state machine over *)
(* the std::io writer kinds the crate is used with -- a growable            *)
(* Cursor<Vec<u8>> and a fixed-size Cursor<&mut [u8]> -- with the semantics *)
(* the code relies on: write_all overwrites from the cursor and extends a   *)
(* Vec, a fixed cursor writes what fits and then fails (WriteZero), seek    *)
(* moves the cursor.  The program run is the one                            *)
(* ResourceRecord::write_compressed_to executes for every record: write the *)
(* owner and the fixed part, remember the position, write a 2-byte          *)
(* placeholder, write the RDATA, seek back, patch RDLENGTH, seek forward.   *)
(*                                                                          *)
(* TLC explores every start offset, capacity and pre-existing content and   *)
(* checks that the bytes produced equal the message (and nothing else is    *)
(* touched) or the writer reports an error -- never a short write.          *)
(*  SeekBack = "written-end"  : seek(Start(end)) after the patch (repaired) *)
(*           = "storage-end"  : seek(End(0))     (pinned tree; refuted)     *)
(***************************************************************************)
EXTENDS Naturals, Sequences, TLC

CONSTANTS SeekBack, MaxStart

\* the message: a 2-byte "header", then two records [owner(2) | len(2) | rdata]
Hdr == <<200, 201>>
Recs == <<[owner |-> <<1, 97>>, rdata |-> <<7, 8, 9>>], [owner |-> <<1, 98>>, rdata |-> <<5>>]>>
RECURSIVE EncRecs(_)
EncRecs(rs) == IF rs = <<>> THEN <<>>
               ELSE Head(rs).owner \o <<0, Len(Head(rs).rdata)>> \o Head(rs).rdata \o EncRecs(Tail(rs))
Message == Hdr \o EncRecs(Recs)
N == Len(Message)

VARIABLES kind, cap, start, prefill, storage, wpos, failed, pc, ri, mark, endpos
vars == <<kind, cap, start, prefill, storage, wpos, failed, pc, ri, mark, endpos>>

Fill(n) == [i \in 1 .. n |-> 100 + i]          \* pre-existing content, distinguishable from the message

Init == /\ kind \in {"vec", "fixed"}
        /\ start \in 0 .. MaxStart
        /\ IF kind = "vec" THEN cap = 0 /\ prefill \in {Fill(start), Fill(start + 3), Fill(start + N + 2)}
           ELSE cap \in start .. start + N + 2 /\ prefill = Fill(cap)
        /\ storage = prefill /\ wpos = start /\ failed = FALSE /\ pc = "hdr" /\ ri = 1 /\ mark = 0 /\ endpos = 0

\* write_all(bytes) at the cursor
Put(bytes) ==
  IF kind = "vec" THEN
    /\ storage' = [i \in 1 .. (IF wpos + Len(bytes) > Len(storage) THEN wpos + Len(bytes) ELSE Len(storage)) |->
                     IF i > wpos /\ i <= wpos + Len(bytes) THEN bytes[i - wpos]
                     ELSE IF i <= Len(storage) THEN storage[i] ELSE 0]
    /\ wpos' = wpos + Len(bytes) /\ failed' = failed
  ELSE
    LET fit == IF wpos >= cap THEN 0 ELSE IF wpos + Len(bytes) <= cap THEN Len(bytes) ELSE cap - wpos IN
    /\ storage' = [i \in 1 .. Len(storage) |-> IF i > wpos /\ i <= wpos + fit THEN bytes[i - wpos] ELSE storage[i]]
    /\ wpos' = wpos + fit
    /\ failed' = (failed \/ fit < Len(bytes))

Keep == UNCHANGED <<kind, cap, start, prefill>>

WriteHdr == pc = "hdr" /\ Put(Hdr) /\ pc' = "owner" /\ Keep /\ UNCHANGED <<ri, mark, endpos>>
WriteOwner == pc = "owner" /\ ~failed /\ Put(Recs[ri].owner) /\ mark' = wpos + Len(Recs[ri].owner)
              /\ pc' = "placeholder" /\ Keep /\ UNCHANGED <<ri, endpos>>
WritePlaceholder == pc = "placeholder" /\ ~failed /\ Put(<<0, 0>>) /\ pc' = "rdata" /\ Keep /\ UNCHANGED <<ri, mark, endpos>>
WriteRdata == pc = "rdata" /\ ~failed /\ Put(Recs[ri].rdata) /\ endpos' = wpos + Len(Recs[ri].rdata)
              /\ pc' = "seekback" /\ Keep /\ UNCHANGED <<ri, mark>>
SeekToMark == pc = "seekback" /\ ~failed /\ wpos' = mark /\ pc' = "patch"
              /\ Keep /\ UNCHANGED <<storage, failed, ri, mark, endpos>>
Patch == pc = "patch" /\ ~failed /\ Put(<<0, endpos - mark - 2>>) /\ pc' = "seekfwd" /\ Keep /\ UNCHANGED <<ri, mark, endpos>>
SeekForward == /\ pc = "seekfwd" /\ ~failed
               /\ wpos' = IF SeekBack = "written-end" THEN endpos ELSE Len(storage)
               /\ pc' = IF ri = Len(Recs) THEN "done" ELSE "owner"
               /\ ri' = IF ri = Len(Recs) THEN ri ELSE ri + 1
               /\ Keep /\ UNCHANGED <<storage, failed, mark, endpos>>
Fail == failed /\ pc \notin {"done", "error"} /\ pc' = "error" /\ Keep /\ UNCHANGED <<storage, wpos, failed, ri, mark, endpos>>

Next == WriteHdr \/ WriteOwner \/ WritePlaceholder \/ WriteRdata \/ SeekToMark \/ Patch \/ SeekForward \/ Fail
Spec == Init /\ [][Next]_vars

Fits == kind = "vec" \/ start + N <= cap

\* C04: all writers agree with the vector output, touch nothing else, and fail exactly when too small
SinkSame == pc = "done" =>
  /\ SubSeq(storage, start + 1, start + N) = Message
  /\ SubSeq(storage, 1, start) = SubSeq(prefill, 1, start)
  /\ SubSeq(storage, start + N + 1, Len(storage)) = SubSeq(prefill, start + N + 1, Len(prefill))
SinkErr == /\ pc = "done" => Fits
           /\ pc = "error" => ~Fits
=============================================================================
