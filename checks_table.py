"""Per-property wiring: which model-checking modules, generators, harness topic and trace rules decide it."""

PROPS = {
    "C08": dict(
        mc=["MC_Header"],
        runs=[dict(topic="hdr", shards=8),
              dict(topic="packet", gen=[dict(module="Gen_Packet", cfg="Gen_Packet.cfg", out="packet_cases.ndjson",
                  simulate=dict(quick="num=800", thorough="num=15000", depth=80))], shards=12)],
        rules=["HdrFields", "FlagAlgebra", "ApiStep"],
    ),
    "C01": dict(
        mc=["MC_NameWire"],
        never_ok=["OOBRead"],
        gen=[dict(module="Gen_RData", cfg="Gen_RData.cfg", cfg_thorough="Gen_RData_thorough.cfg", out="rdata_cases.ndjson"),
             dict(module="Gen_Framing", cfg="Gen_Framing.cfg", cfg_thorough="Gen_Framing_thorough.cfg", out="framing_cases.ndjson"),
             dict(module="Gen_Edns", cfg="Gen_Edns.cfg", out="edns_cases.ndjson")],
        topic="hostile",
        rules=["NoPanic", "NoHang", "HeapBound", "PeekTotal"],
        shards=14,
    ),
    "C03": dict(
        mc=["MC_Compress"],
        runs=[dict(topic="compress", gen=[dict(module="Gen_Packet", cfg="Gen_Packet.cfg", out="packet_cases.ndjson",
                  simulate=dict(quick="num=1500", thorough="num=25000", depth=80))], shards=14,
                   min_counters={"distinct_rr_types": 35}),
              # the writer-based entry point at offsets 0 / 2 / 7 / beyond 64 KiB: what it writes is what the vector holds
              dict(topic="sinks", gen=[dict(module="Gen_Packet", cfg="Gen_Packet.cfg", out="packet_cases.ndjson",
                  simulate=dict(quick="num=300", thorough="num=4000", depth=80))], shards=14)],
        rules=["NoPanic", "BuildOk", "CompDecodes", "CompShorter", "CompRoundTrip", "SinkSame"],
    ),
    "C07": dict(
        mc=["MC_Compress"],
        runs=[dict(topic="compress", gen=[dict(module="Gen_Packet", cfg="Gen_Packet.cfg", out="packet_cases.ndjson",
                  simulate=dict(quick="num=1500", thorough="num=25000", depth=80))], shards=14),
              dict(topic="sinks", gen=[dict(module="Gen_Packet", cfg="Gen_Packet.cfg", out="packet_cases.ndjson",
                  simulate=dict(quick="num=300", thorough="num=25000", depth=80))], shards=14)],
        rules=["PtrValid", "PtrForbidden", "PtrRequired", "CompDecodes", "SinkSame"],
    ),
    "C04": dict(
        mc=["MC_Sink"],
        runs=[dict(topic="sinks", gen=[dict(module="Gen_Packet", cfg="Gen_Packet.cfg", out="packet_cases.ndjson",
                  simulate=dict(quick="num=600", thorough="num=25000", depth=80))], shards=14),
              dict(topic="compress", gen=[dict(module="Gen_Packet", cfg="Gen_Packet.cfg", out="packet_cases.ndjson",
                  simulate=dict(quick="num=1500", thorough="num=25000", depth=80))], shards=14)],
        rules=["NoPanic", "SinkErr", "SinkSame", "BuildOk", "PlainCanonical", "CompDecodes", "WellFramed", "ChunkSame"],
    ),
    "C05": dict(
        gen=[dict(module="Gen_Framing", cfg="Gen_Framing.cfg", cfg_thorough="Gen_Framing_thorough.cfg", out="framing_cases.ndjson"),
             dict(module="Gen_Edns", cfg="Gen_Edns.cfg", out="edns_cases.ndjson")],
        topic="framing",
        rules=["NoPanic", "EnvelopeErr", "ParseEqRef", "EntryAligned"],
        shards=12,
    ),
    "C02": dict(
        gen=[dict(module="Gen_Packet", cfg="Gen_Packet.cfg", out="packet_cases.ndjson",
                  simulate=dict(quick="num=1500", thorough="num=25000", depth=80))],
        topic="packet",
        min_counters={"distinct_rr_types": 35},
        rules=["NoPanic", "BuildOk", "RoundTrip", "ApiStep"],
        shards=12,
    ),
    "C09": dict(
        gen=[dict(module="Gen_Packet", cfg="Gen_Packet.cfg", out="packet_cases.ndjson",
                  simulate=dict(quick="num=1500", thorough="num=25000", depth=80)),
             dict(module="Gen_Edns", cfg="Gen_Edns.cfg", out="edns_cases.ndjson")],
        topic="edns",
        rules=["NoPanic", "BuildOk", "PlainCanonical", "RoundTrip", "ParseEqRef", "MustAccept", "CompOpt", "ApiStep"],
        shards=12,
    ),
    "C06": dict(
        mc=["MC_NameWire"],
        never_ok=["OOBRead"],   # the out-of-bounds read must be unreachable in the (repaired) design
        runs=[dict(topic="name", shards=12,
                   gen=[dict(module="Gen_NameWire", cfg="Gen_NameWire.cfg", cfg_thorough="Gen_NameWire_thorough.cfg", out="name_cases.ndjson")]),
              # names inside the RDATA of every name-bearing type, plain and pointer-compressed by a third party
              dict(topic="rdata", shards=12,
                   gen=[dict(module="Gen_RData", cfg="Gen_RData.cfg", cfg_thorough="Gen_RData_thorough.cfg", out="rdata_cases.ndjson")]),
              # records whose RDLENGTH is larger / smaller than their typed content: what follows a name is still read right after it
              dict(topic="framing", shards=12,
                   gen=[dict(module="Gen_Framing", cfg="Gen_Framing.cfg", cfg_thorough="Gen_Framing_thorough.cfg", out="framing_cases.ndjson"),
                        dict(module="Gen_Edns", cfg="Gen_Edns.cfg", out="edns_cases.ndjson")])],
        rules=["NameNoPanic", "NameRef", "NameMustErr", "NameSiteAligned", "AfterName"],
    ),
    "C10": dict(
        gen=[dict(module="Gen_RData", cfg="Gen_RData.cfg", cfg_thorough="Gen_RData_thorough.cfg", out="rdata_cases.ndjson")],
        topic="rdata",
        rules=["NoPanic", "EnvelopeErr", "ParseEqRef", "MustAccept", "BuildOk", "PlainCanonical", "SvcbSetters", "CompDecodes", "ChunkSame"],
        shards=12,
    ),
    "C11": dict(
        gen=[dict(module="Gen_RData", cfg="Gen_RData.cfg", cfg_thorough="Gen_RData_thorough.cfg", out="rdata_cases.ndjson"),
             dict(module="Gen_Framing", cfg="Gen_Framing.cfg", cfg_thorough="Gen_Framing_thorough.cfg", out="framing_cases.ndjson"),
             dict(module="Gen_Edns", cfg="Gen_Edns.cfg", out="edns_cases.ndjson"),
             dict(module="Gen_Inspect", cfg="Gen_Inspect.cfg", cfg_thorough="Gen_Inspect_thorough.cfg", out="inspect_cases.ndjson"),
             dict(module="Gen_Compress", cfg="Gen_Compress1.cfg", out="layouts1.ndjson"),
             dict(module="Gen_Compress", cfg="Gen_Compress2.cfg", out="layouts2.ndjson")],
        topic="reparse",
        rules=["NoPanic", "ReparseEqual", "HdrReparse"],
        shards=14,
    ),
    "C12": dict(
        gen=[dict(module="Gen_Inspect", cfg="Gen_Inspect.cfg", cfg_thorough="Gen_Inspect_thorough.cfg", out="inspect_cases.ndjson"),
             dict(module="Gen_RData", cfg="Gen_RData.cfg", cfg_thorough="Gen_RData_thorough.cfg", out="rdata_cases.ndjson"),
             dict(module="Gen_Edns", cfg="Gen_Edns.cfg", out="edns_cases.ndjson")],
        topic="inspect",
        rules=["ObserverTotal"],
        shards=12,
    ),
    "C13": dict(
        mc=["MC_Store"],
        runs=[dict(topic="store", shards=14,
                   gen=[dict(module="Gen_Store", cfg="Gen_Store_reply.cfg", out="store_cases.ndjson",
                             simulate=dict(quick="num=1500", thorough="num=30000", depth=30)),
                        dict(module="Gen_Store", cfg="Gen_Store_matrix.cfg", out="store_matrix.ndjson")]),
              # the real responders (sync, tokio) answering over the loopback multicast group (sampled)
              dict(topic="resprun", shards=1, gen=[])],
        rules=["NoPanic", "ReplyUpper", "ReplyLower", "ReplyAddl", "ReplyMeta", "ReplyNone", "E2EReplied"],
    ),
    "C20": dict(
        mc=["MC_Store", "MC_Discovery", "MC_DiscoveryAsync", "MC_DiscoveryLossy", "MC_DiscoveryLive"],
        never_ok=["RemoveAsync", "Advertise", "Drop", "Remove"],
        runs=[dict(topic="store", shards=14,
                   gen=[dict(module="Gen_Store", cfg="Gen_Store_expiry.cfg", out="store_cases.ndjson",
                             simulate=dict(quick="num=260", thorough="num=4000", depth=30))]),
              # the goodbye of a real peer (cache-flush records, one second) seen by real peers (sampled)
              dict(topic="e2e", shards=1, gen=[])],
        rules=["NoPanic", "QueryUpper", "AuthNotCached", "AuthForever", "CacheExpired", "CacheVisible", "E2EGoodbye"],
    ),
    "C14": dict(
        mc=["MC_Mdns"],
        gen=[dict(module="Gen_RData", cfg="Gen_RData.cfg", cfg_thorough="Gen_RData_thorough.cfg", out="rdata_cases.ndjson"),
             dict(module="Gen_Inspect", cfg="Gen_Inspect.cfg", cfg_thorough="Gen_Inspect_thorough.cfg", out="inspect_cases.ndjson")],
        topic="datagram",
        rules=["LoopAlive", "LockClean", "ReplyParses"],
        shards=14,
    ),
    "C15": dict(
        mc=["MC_Mdns", "MC_Discovery", "MC_DiscoveryAsync", "MC_DiscoveryLossy", "MC_DiscoveryLive"],
        never_ok=["RemoveAsync", "Advertise", "Drop", "Remove"],   # each flavour / the lossy network has its own configuration
        runs=[dict(topic="discover", shards=12,
                   gen=[dict(module="Gen_Discover", cfg="Gen_Discover.cfg", out="discover_cases.ndjson",
                             simulate=dict(quick="num=1500", thorough="num=30000", depth=30)),
                        dict(module="Gen_Discover", cfg="Gen_Escape.cfg", out="escape_cases.ndjson")]),
              # the real ServiceDiscovery peers on the loopback multicast group (sampled)
              dict(topic="e2e", shards=1, gen=[])],
        rules=["NoPanic", "DiscoverExact", "IngestFilter", "EscapeInverse", "E2EDiscovered"],
    ),
    "C16": dict(
        gen=[dict(module="Gen_Packet", cfg="Gen_Packet.cfg", out="packet_cases.ndjson",
                  simulate=dict(quick="num=500", thorough="num=8000", depth=80)),
             dict(module="Gen_Instance", cfg="Gen_Instance.cfg", out="instance_cases.ndjson"),
             dict(module="Gen_RData", cfg="Gen_RData.cfg", cfg_thorough="Gen_RData_thorough.cfg", out="rdata_cases.ndjson")],
        topic="values",
        rules=["NoPanic", "OwnEqual", "EqHash"],
        shards=14,
    ),
    "C17": dict(
        gen=[dict(module="Gen_NameText", cfg="Gen_NameText.cfg", cfg_thorough="Gen_NameText_thorough.cfg", out="text_cases.ndjson")],
        topic="nametext",
        rules=["NoPanic", "NameGrammar", "NameDisplay", "SuffixAlgebra"],
        shards=12,
    ),
    "C19": dict(
        gen=[dict(module="Gen_Txt", cfg="Gen_Txt.cfg", cfg_thorough="Gen_Txt_thorough.cfg", out="txt_cases.ndjson")],
        topic="txt",
        rules=["NoPanic", "TxtPieces", "TxtJoin", "TxtAttrs", "TxtLong", "CStrLimit"],
        shards=12,
    ),
    "C18": dict(
        mc=["MC_Codes"],
        topic="codes",
        rules=["CodeTables", "MatchMatrix"],
        shards=8,
    ),
}

_TRUSTED = ("Trusted base: TLC 1.8.0; the Ref layer of the specification (RFC transcription, model-checked for "
            "self-consistency on every run); the harness projection through the public API; catch_unwind/allocator "
            "instrumentation. Bounded: exhaustive only over the stated finite spaces.")

TEXT = {
    "C08": dict(
        text=("API histories of the builder machine (including histories that start from a parsed message and then "
              "overwrite opcode / rcode / flags) are replayed on a real Packet: the projection after each call and the "
              "id / flags word finally written must equal the model's. Exhaustive: all 65536 flag words (x id/count variants) are pushed through Packet::parse, the eight "
              "header_buffer peek functions and re-serialisation of the real crate, all ctor x 128 flag subsets x named "
              "opcodes x named rcodes are built, and all 128x128 flag-set pairs go through set/remove/has; every "
              "observation is judged by TLC against Header.tla (RFC 1035 4.1.1 bit layout) in the trace specification. "
              "The builder API state machine (MC_Header) is model-checked exhaustively for the encode/decode identity. "
              "The space is finite and fully enumerated, so this is the right level."),
        note=_TRUSTED,
        technique="TLA+ spec (Header.tla) + TLC exhaustive model check + exhaustive trace validation of the real code's outputs",
    ),
    "C18": dict(
        text=("Exhaustive: all 65536 codes through TYPE/CLASS/QTYPE/QCLASS conversion and back, every mnemonic the "
              "crate names, the full (record type x question type) matrix over supported, NULL and unknown codes for "
              "records obtained both by construction and by parsing, and all class x qclass pairs, each judged by TLC "
              "against Codes.tla (IANA tables and RFC 1035 3.2.3 matching) in the trace specification; the tables' "
              "own consistency is model-checked (MC_Codes)."),
        note=_TRUSTED,
        technique="TLA+ spec (Codes.tla) + TLC + exhaustive trace validation of the real code's outputs",
    ),
    "C06": dict(
        text=("Bounded-exhaustive: TLC enumerates every buffer up to length L (4 quick, 5 thorough) over the boundary "
              "alphabet {0,1,2,3,63,64,0x80,0xC0..0xC3,'a'}; the real crate decodes a name at every start offset of "
              "every buffer, plus real-constant families (label 62..65 bytes, names of 250..258 bytes direct and via a "
              "pointer tail, every pointer shape, chains up to 2000 hops) and seeded random buffers; TLC judges each "
              "result against RefDecodeName (RFC 1035 4.1.4) in the trace specification: labels, resume cursor, and "
              "the mandatory errors. The crate's parsing loop is also modelled action by action (MC_NameWire) and "
              "model-checked to refine the reference decoder and never read out of bounds, with scaled constants."),
        note=_TRUSTED,
        technique="TLA+ Ref decoder + Impl loop refinement checked by TLC; TLC-generated buffers replayed into the crate; results validated by the trace spec",
    ),
    "C17": dict(
        text=("Bounded-exhaustive: TLC enumerates every string up to length L (5 quick, 6 thorough) over "
              "{a,A,1,-,_,.,\\,U+00E9}, checking the Ref-level identities (split/display idempotence, suffix algebra) "
              "on each, and hands each to Name::new / Display / re-creation in the real crate; plus all label lengths "
              "0..70 with boundary characters at first/middle/last position, encoded lengths 250..260, all 961 ordered "
              "pairs of names over {a,b} for is_subdomain_of/without and all case variants of 'local'. TLC judges every "
              "observation against NameText.tla in the trace specification."),
        note=_TRUSTED,
        technique="TLA+ grammar spec (NameText.tla), TLC-enumerated strings replayed into the crate, results validated by the trace spec",
    ),
    "C10": dict(
        text=("For each of the 40 typed variants plus NULL/unknown, TLC enumerates every value tuple of the bounded "
              "domain of the type's declarative schema (RData.tla, written from the RFCs), checks that the reference "
              "decoder inverts the reference encoder, and emits the reference-encoded message and the values. The real "
              "crate parses the reference bytes (values must equal the RFC field values: ParseEqRef/MustAccept) and "
              "serialises the constructed values (bytes must equal the reference encoding byte for byte, including the "
              "IANA type code: PlainCanonical); every rule-breaking encoding (LOC version, SVCB key order, NSEC window "
              "order, inner length overrun) must be rejected. Verdicts by TLC in the trace specification."),
        note=_TRUSTED,
        technique="TLA+ declarative RDATA schemas + generic Ref codec; TLC-generated cases replayed into the crate; trace validation",
    ),
    "C02": dict(
        text=("TLC random-walks the packet-builder state machine of the specification (Gen_Packet: NewQuery/NewReply, "
              "SetFlags, RemoveFlags, SetOpcode, SetRcode, SetOpt, Push* over every record type, the bounded value "
              "domains, all classes, QTYPE/QCLASS specials, binary and maximal names, boundary TTLs; 1500 behaviours "
              "quick, 25000 thorough), checking the Ref codec identity on every state; each finished packet is built "
              "through the real public API, serialised without compression and parsed back; TLC judges "
              "parse(build(p)) = p field by field in the trace specification. One-record packets of every (type, value "
              "tuple) are covered exhaustively by C10's generator."),
        note=_TRUSTED + " rcode BADVERS without OPT and zero-string TXT are outside the wire-representable domain and not generated.",
        technique="TLA+ builder state machine simulated by TLC, behaviours replayed into the crate, round trip validated by the trace spec",
    ),
    "C09": dict(
        text=("Build side: every EDNS version 0..255, every named 12-bit rcode, boundary and random UDP sizes and option "
              "lists, and all OPT-carrying packets of the builder state machine are serialised by the crate; TLC "
              "requires the bytes to equal the RFC 6891 reference encoding byte for byte (one OPT in AR counted once, "
              "root owner, CLASS = size, TTL = ext-rcode|version|flags, option triples). Parse side: TLC generates "
              "reference-encoded third-party messages (OPT first/middle/last, DO bit, rcode x version) which the "
              "crate must accept and expose exactly as the reference decoder does."),
        note=_TRUSTED,
        technique="TLA+ Message/EDNS Ref codec; TLC-generated messages and builder behaviours replayed; trace validation",
    ),
    "C01": dict(
        text=("Packet::parse and the eight header-peek functions of the real crate are run (catch_unwind, 5 s watchdog, "
              "thread-local counting allocator, loop-iteration counter hook) on: every truncation and +-1 perturbation "
              "of every byte (hence of every length-like field, count and pointer) of TLC-generated reference encodings "
              "of all record types and of three-record messages; header counts beyond the body; pointer chains "
              "referenced many times up to 64 KiB; all pointer graphs over 3 slots x 13 targets; seeded random byte "
              "strings of 0..65535 bytes and random mutations; buffers of 0..14 bytes for the peek functions. TLC "
              "judges each event in the trace specification: outcome is a value or an error (NoPanic), steps <= "
              "64n+1024 (NoHang), peak heap <= 1024n+65536 (HeapBound), peek results equal Header.tla's fields or are "
              "errors (PeekTotal). The name-parsing loop is additionally model-checked (MC_NameWire) to terminate with "
              "a decreasing variant and never read out of bounds. Absence of panics is established by observation on "
              "the generated inputs, not by proof."),
        note=_TRUSTED + " Heap accounting counts bytes requested on the calling thread; the linear constants are chosen so that a parser materialising names (<=127 labels per 2-byte pointer) satisfies them.",
        technique="TLC-generated encodings mutated systematically, executed against the crate; outcomes and resource counters validated by the TLA+ trace spec; loop termination model-checked",
    ),
    "C05": dict(
        text=("TLC generates, for every record type, messages whose first record's RDLENGTH differs from the natural size "
              "of its typed content by -2,-1,+1,+2,+7 (length field only, or data resized with record-like padding), "
              "followed by two sentinel records, and messages whose counts are off by one; plus every truncation of the "
              "exact variants. The real crate parses each; TLC compares the result with the independent envelope "
              "walker/decoder of Message.tla: reject when the walker rejects, otherwise every entry equal to the "
              "walker's entry (decoded from its own RDLENGTH span, surplus ignored) -- never an entry read from the "
              "middle of a record."),
        note=_TRUSTED,
        technique="TLA+ envelope walker (Message.tla) as oracle; TLC-generated framing variants replayed; trace validation",
    ),
    "C12": dict(
        text=("TLC generates messages carrying every byte string up to length 3 over {NUL,'a','.','\\','=',0x80,0xC3,0xA9,"
              "0xFF} (and maximal strings) in every name and string position of TXT/HINFO/MX/NAPTR/CAA/ISDN/SOA/SRV/NSEC "
              "records; the crate parses each and the harness applies every public observer to every part (Debug, "
              "Display, to_string, clone, into_owned, Hash, PartialEq, match_qtype/qclass, TXT::attributes, "
              "long_attributes, String::try_from) under catch_unwind. TLC judges each observation: never a panic; "
              "fallible conversions succeed exactly when the bytes are well-formed UTF-8 (Bytes.tla)."),
        note=_TRUSTED + " The observer list is the one enumerated in harness/src/inspect.rs.",
        technique="TLC-generated wire messages parsed by the crate; observer outcomes validated by the TLA+ trace spec (UTF-8 automaton as oracle)",
    ),
    "C03": dict(
        text=("Model: the crate's compressing writer is transcribed action by action (MC_Compress) and TLC checks, for all "
              "sequences of up to 3 (thorough 4) names over a two-letter label universe in compressible / "
              "non-compressible positions with a scaled 4-bit pointer field, that the output expands to the intended "
              "names and is never longer than the plain encoding -- including names first written beyond the largest "
              "expressible offset. Code: every packet of the builder state machine (suffix-sharing name tree) and "
              "large-message recipes with a name first appearing at each offset 16376..16392 and at 20000..65000 are "
              "serialised both ways by the crate; TLC's reference decoder must decode the compressed bytes to the same "
              "packet, the crate must parse them to the same packet, and the compressed length must not exceed the "
              "plain length."),
        note=_TRUSTED,
        technique="TLA+ Impl model of the compressor model-checked against the Ref decoder with scaled constants; builder behaviours and large recipes replayed; trace validation",
    ),
    "C07": dict(
        text=("A schema-aware walker in TLA+ (Compress.tla) locates every name site of every compressed message the crate "
              "emits for the builder-machine packets and the large recipes, and TLC checks per site: pointers strictly "
              "backwards, <= 16383, to a label boundary of an earlier-written name (PtrValid); no pointer inside SRV, "
              "NAPTR, KX, RRSIG, NSEC, IPSECKEY, SVCB/HTTPS RDATA (PtrForbidden); a whole name already written in a "
              "question/owner/RFC 1035 RDATA position at an offset <= 16383 is a bare pointer (PtrRequired); the whole "
              "message decodes to the intended packet. Message-relative offsets for writers starting at non-zero "
              "positions are decided by C04's SinkSame on compressed output. The same rules are model-checked on the "
              "Impl compressor with scaled constants (MC_Compress)."),
        note=_TRUSTED + " RP, AFSDB, RT, NSAP-PTR names are unconstrained (either form accepted).",
        technique="TLA+ schema-aware pointer walker as oracle over recorded outputs; Impl compressor model-checked",
    ),
    "C04": dict(
        text=("Model: MC_Sink runs the record writer's program (write, remember position, placeholder, RDATA, seek back, "
              "patch RDLENGTH, seek forward) over a growable Cursor<Vec> and a fixed Cursor<&mut [u8]> with std::io "
              "semantics for every start offset, capacity and pre-existing content; TLC checks region = message, nothing "
              "else touched, error iff too small, and refutes the pinned seek(End(0)) (negative configuration). Code: "
              "for packets of the builder state machine x {plain, compressed}: the writer-based entry points are run into a "
              "growable Cursor<Vec> at offsets 0/2/7 over storage with no/shorter/longer pre-existing content, and into "
              "fixed &mut [u8] / Cursor<&mut [u8]> (offset 0 and 3) of every capacity 0..len+2; TLC checks that the "
              "written region equals the vector-returning entry point's bytes, nothing else in the storage changed, and "
              "too-small writers yield an error (never a panic, never a short write). Framing of the vector outputs "
              "themselves (counts, RDLENGTHs, exact consumption, EDNS counted once) is checked byte for byte against "
              "the reference encoder / decoder on the same packets (PlainCanonical, CompDecodes)."),
        note=_TRUSTED,
        technique="recorded writer outcomes validated by the TLA+ trace spec against the Ref encoder/decoder",
    ),
    "C11": dict(
        text=("Session parse -> build plain -> build compressed -> parse both, on every input the parser accepts from: "
              "reference encodings of all record types, framing variants, EDNS messages, arbitrary-byte names/strings, "
              "ALL admissible compression layouts of two small messages (enumerated by TLC's nondeterministic encoder, "
              "Gen_Compress, which also proves on the model that every layout decodes to the intended packet), +-1 "
              "perturbations and random mutations that are still accepted, and all 65536 header words. TLC requires "
              "both builds to succeed and both re-parses to equal the first parse in every observable field."),
        note=_TRUSTED,
        technique="TLC-enumerated foreign encodings replayed; parse/build/parse sessions validated by the TLA+ trace spec",
    ),
    "C16": dict(
        text=("For every question, record, RDATA value and name of every packet produced by the builder state machine, "
              "both as built from parts and as parsed out of a receive buffer, the harness records into_owned / clone "
              "against the original (projection, ==, serialised bytes), parsed-vs-built pairs, records differing only "
              "in TTL / cache-flush and records differing in class; TLC (Gen_Instance) generates every insertion order "
              "of up to 3 addresses and ports for instance information. TLC judges in the trace specification: copies "
              "equal originals and serialise identically (OwnEqual), and equal values have equal hashes under a fixed-key hasher (EqHash)."),
        note=_TRUSTED,
        technique="TLA+ equality spec (Values.tla); builder behaviours and TLC-enumerated insertion orders replayed; trace validation",
    ),
    "C19": dict(
        text=("TLC enumerates every string up to length 4 (thorough 5) over {a ; = U+013B U+013D U+00E9 U+1F600} and every "
              "attribute map with up to 3 keys and absent/empty/non-empty values, checking the Ref identities of Txt.tla; "
              "the real crate converts each (TXT::try_from(&str), String::try_from, TXT::try_from(map), attributes, "
              "long_attributes), plus texts of 0..5000 bytes with 1-4-byte characters straddling every multiple of "
              "254/255, entries around the 255-byte limit, duplicate keys, and character-strings of every length 0..300 "
              "through each constructor. TLC judges: pieces <= 255 bytes concatenating to the UTF-8 of the text, join "
              "returns the text, attributes read back equal the map (absent /= empty, first key wins), long_attributes "
              "splits only at ';' and the first '=', over-long strings are refused."),
        note=_TRUSTED,
        technique="TLA+ Txt spec; TLC-enumerated strings/maps replayed into the crate; trace validation",
    ),
    "C13": dict(
        text=("Model: the store as a state machine over a record catalogue on names that collide under concatenation "
              "(foo.bar/foobar, _my/_mysrv); TLC explores every history of up to 3 (thorough 4) operations and checks for "
              "every single-question query that the Impl lookup (radix-trie keys as the crate builds them, exact get, "
              "subtrie only where a node sits exactly at the key) answers between the Ref bounds of C13; the pinned key "
              "construction is kept as a negative configuration that TLC refutes. Code: TLC random-walks the abstract "
              "store machine (Gen_Store: add-authoritative / add-cached / remove / clear, build_reply queries with 1-2 "
              "questions over all QTYPE/QCLASS) and each history is replayed on the real ResourceRecordManager and "
              "build_reply; the trace specification evolves the abstract store from the recorded operations and TLC "
              "checks every reply: answers within the upper bound, all exact-owner matches present, additionals only "
              "address records of included SRV targets, id/QR/unicast, no reply iff nothing must be answered."),
        note=_TRUSTED + " AXFR/IXFR/MAILA questions are left unconstrained on type (outside the property's matrix).",
        technique="TLA+ store state machine: TLC model-checks Impl lookup against Ref bounds; TLC-generated histories replayed on the real store; stateful trace validation",
    ),
    "C20": dict(
        text=("TLC random-walks the abstract store machine (Gen_Store, mode expiry: add-authoritative, add-cached with TTL "
              "0/1/2/1000 and the cache-flush bit, re-add, remove, clear, sleeps of 300..1200 ms, queries with the four "
              "filters); each history is replayed in real time on its own real store (32 in parallel) with monotonic "
              "timestamps before/after every call. The trace specification keeps, per cached record, the interval that "
              "must contain its expiry instant and narrows it with every query, so TLC checks without false alarms: a "
              "cached record is never shown once it must have expired, never hidden while it cannot have expired, never "
              "shown again after it was seen gone (unless re-added); authoritative records are always returned for "
              "their owner until removed/cleared and never under the cached-only filter. MC_Store model-checks the same "
              "invariants on the abstract machine with a logical clock (and refutes the cached-overwrites-authoritative "
              "design)."),
        note=_TRUSTED + " Timing: scheduling jitter only widens the intervals (more behaviours accepted), so it cannot cause an alarm.",
        technique="TLA+ store machine with clock; TLC-generated histories replayed in real time; interval-narrowing trace validation",
    ),
    "C14": dict(
        text=("Design: one node with Receiver and App threads and the store behind a reader/writer lock is modelled "
              "(MC_Mdns); TLC proves for every interleaving and datagram class that the receiver stays alive, the lock is "
              "never poisoned and the application can still use the store provided every pipeline step is total, and "
              "refutes the pinned tree's partial steps (negative configuration). Code: the loop bodies of the responder, "
              "the discovery listener (sync and tokio flavour) and the one-shot resolver are composed from the real functions in the order the "
              "loops call them (header peek, Packet::parse, build_reply under a read lock / add_response_to_resources "
              "under a write lock of a real RwLock, compressed serialisation, re-parse), each step under catch_unwind, "
              "and driven with datagrams of length 0..12, valid traffic, hostile names (non-UTF-8, NUL, dots, maximal "
              "labels) under and outside the watched service, every truncation and +-1 perturbation of valid traffic, the "
              "specification's generated messages as queries and as responses, and random datagrams up to 9000 bytes, "
              "with a valid probe every 40 datagrams. TLC checks per datagram: no step panicked (LoopAlive), lock not "
              "poisoned and store usable (LockClean), every reply decodes with the reference decoder (ReplyParses)."),
        note=_TRUSTED + " The socket loops themselves are exercised only by the sampled NetRun event: the real sync and tokio SimpleMdnsResponder and ServiceDiscovery run on loopback multicast, ~500 hostile datagrams are sent, and a loop counts as dead only if it answered a probe before, not after, while a fresh control responder does answer; panics on library threads are captured by the process-wide hook.",
        technique="TLA+ lock/thread model checked by TLC; real pipeline functions driven with generated and mutated datagrams; trace validation",
    ),
    "C15": dict(
        text=("TLC random-walks announcement histories (Gen_Discover: up to 5 announcements from several peers: instances of "
              "the watched and of a foreign service with 0..3 IPv4/IPv6 addresses, 0..2 ports and attribute maps with "
              "absent/empty/non-empty values; the discoverer's own instance echoed; the service PTR; unrelated names). "
              "Each announcement is produced by InstanceInformation::into_records, crosses the wire as a compressed "
              "packet, is parsed and ingested by add_response_to_resources (sync and tokio flavour, with and without the on_discovery channel) "
              "into a store initialised exactly like ServiceDiscovery::new, and reported via from_records over the "
              "cached records. TLC checks that the reported set equals exactly the instances of the watched service "
              "announced by others, field by field (Mdns.tla), that channel notifications are among them, and -- for "
              "every string up to length 5 over {a . \\ U+00E9} -- that escaping then unescaping is the identity and "
              "equals the RFC 6763 escaping."),
        note=_TRUSTED + " Each instance name is announced with one description per history; merging of conflicting re-announcements is not specified by the property.",
        technique="TLA+ discovery spec; TLC-generated announcement histories replayed through the real record/packet/store pipeline; trace validation",
    ),
}


# ---- additions to the check descriptions made after the seeded rounds 3 and 4 (appended to TEXT[..]["text"])
EXTRA = {
    "C16": "Pairs of collection-valued RDATA (NSEC windows, TXT strings, SvcParams) holding the same members in a different order: whatever equality says about them, equal values hash equally (EqHash only).",
    "C12": "Every observer is applied to the parsed (borrowed) packet and to the packet rebuilt from owned parts; every record is matched against every special QTYPE / QCLASS and a few ordinary ones, whatever the packet itself asks.",
    "C03": "The writer-based entry point is judged too (sinks topic: growable cursors at offsets 0 / 2 / 7 and beyond 64 KiB, fixed slices of every capacity, writers that take 1 or 3 bytes per call): what write_compressed_to writes is what build_bytes_vec_compressed holds (SinkSame), which CompDecodes / CompRoundTrip judge.",
    "C01": "The perturbations of every base message (all record types, framing variants, EDNS layouts) are every truncation, +-1 on every byte, the boundary values 0x00 / 0x80 / 0xFF on every byte and 0xFFFF / 0xFFFC / 0x8000 on every 16-bit position. Many-record families: 500 (thorough also 5400) empty records of every type, and the last record of every base repeated to 6 KB (30 KB): per-record allocation must not grow with the message.",
    "C02": "Histories may start from a parsed message; the packet each history builds is serialised and parsed back too. Packets whose records come from the crate's convenience constructors (every way of making a TXT, typed SVCB setters, owned copies) are round-tripped as well. Also after refused operations (TXT::add_string > 255 bytes, SVCB::set_param > 65535 bytes: the object is used further) and packets made of the smallest entries only (1-4 root questions, 0-3 empty root records). A call of a history that the crate refuses is recorded as a state that differs from the model's.",
    "C04": "Packets that have no wire form of their own (BADVERS or a received extended rcode without an OPT record) and a received two-OPT message are serialised as well: whatever is written must be a well-framed message whose counts equal the entries written (WellFramed). Besides the builder machine's packets: packets whose records come from every convenience constructor (all ways of making a TXT incl. TryFrom<&str> at the 254/255/256/509/1000-byte boundaries and TryFrom<HashMap>, the typed SVCB setters, owned copies), each followed by further records so that a wrong length shows in the framing of what follows. One-entry packets whose own names share a suffix (PTR / NS / MX / SRV / SOA / MINFO, a lone question) go through the whole sink grid.",
    "C05": "Every case starts with a question whose QTYPE (specific types and IXFR/AXFR/MAILB/MAILA/ANY), QCLASS and unicast bit vary; TTLs 0x80000000 / 0xFFFFFFFF / 0x7FFFFFFF, the cache-flush bit and class CH are spread over the records. The clause 'never read from the middle of that record' is also observed directly: a hook at the top of Question::parse / ResourceRecord::parse records the offset at which the parser starts on each entry, and TLC requires those offsets to be a prefix of the entry offsets found by an independent envelope walker (EnvelopeStarts: names, fixed parts, RDLENGTH skips only), whatever the outcome of the parse (EntryAligned). Cases include RDLENGTH 0 for every type (with and without content following) and OPT at every position among 0..3 other additional records. Mode question: 8 x 8 pairs of QTYPE / QCLASS codes (known, unassigned, field boundaries). Mode reentry: the second record's owner is a pointer to a length octet whose label ends on the pointer's own first byte, so that decoding re-enters the bytes behind the pointer; the name is legal, the record must still be read from right behind the pointer (the RDATA behind the name's end looks like a record, so a misplaced parse succeeds and shows).",
    "C06": "The framing cases (records whose RDLENGTH is larger or smaller than their typed content) are parsed too and the fields that FOLLOW a name in a record's schema must equal the reference decoding (AfterName). Names inside RDATA: for every name-bearing record type TLC prints the reference encoding and a third-party compressed one (every RDATA name a bare pointer into the question); a hook at the top of Name::parse records where the parser starts on each name and TLC requires those offsets to be, in order, the positions of the message's names as located by the schema-aware site walker of Compress.tla (NameSiteAligned: parsing of the enclosing element resumes right after the in-place bytes). A message with an invalid name (cycle, pointer outside, reserved label type, over-long, cut short) must be rejected as a whole (NameMustErr on the whole-message parse); AfterName also covers the IPSECKEY gateway name; a re-entry family (a pointer whose target's label ends on the pointer's own first byte).",
    "C10": "Also: for every name-bearing type a third-party pointer-compressed encoding (the parsed result must equal the reference decoding), three- and four-window NSEC orderings among the rule-breaking encodings, and random sequences of the typed SvcParam setters of SVCB/HTTPS (set_port, set_alpn, set_no_default_alpn, set_ipv4hint, set_ipv6hint, set_mandatory, set_param): iter_params, get_param and the built record must show the RFC 9460 section 7 values computed in the specification (SvcbSetters).",
    "C13": "Sampled on real sockets (RespRun): the real SimpleMdnsResponder (sync and tokio) serving seven records answers twelve queries (QU / non-QU, one and two questions, ANY / SRV / TXT / A / AAAA, classes IN / CH / ANY, a name nobody owns) sent over the loopback multicast group; every reply seen at a plain socket (unicast) or at a socket joined to the group (multicast) must satisfy the reply bounds, carry the query id and QR, and have gone to the querier iff some question asked for unicast; a query that must be answered must be seen answered in at least one of the attempts (E2EReplied). In addition to the random histories, a bounded-exhaustive matrix: every record of the catalogue (incl. MB/MG/MR/MX/MINFO) registered alone x every supported QTYPE and IXFR/AXFR/MAILB/MAILA/ANY x QCLASS {IN, CH, ANY}, asked at the record's own name and at its parent. Twins: the same name and RDATA registered in classes IN and CH (either order) with the same question matrix; opaque records (NULL, an unnamed type) in the catalogue.",
    "C14": "The discovery-listener pipeline runs without a notification channel, with a live one (drained by the application) and with one whose receiver was dropped, sync and tokio; the usability probe after every datagram does what get_known_services() does (from_records over the cached records); hostile labels cover every alignment of character boundaries (0..3 ASCII bytes followed by invalid, 2-byte and 4-byte units). Sampled on real sockets (NetRun): sync and tokio responder and discovery services answer a probe before the hostile burst and must still answer after it (a fresh control responder tells a dead loop from a dead network); the one-shot resolver keeps resolving (an answered name, an unanswered name, address-and-port of an unanswered service) during the whole burst, which includes responses with id 0 owned by the names it asks for with empty, truncated and mistyped RDATA; any panic on a library thread is a violation. Names of 253..256 wire bytes made of 63- / 7- / 1-byte labels in queries and responses. NetRun records every reply to its probes and sends four queries (a question repeated 200 / 900 times) that make the four real services reply with 14-16 KB: whatever comes back on the wire must parse (ReplyParses).",
    "C15": "Protocol level: Discovery.tla (one action per implementation step of ServiceDiscovery, sync and tokio flavours; MC_Discovery, MC_DiscoveryAsync, MC_DiscoveryLossy; MC_DiscoveryLive checks the temporal properties EventuallyKnown / EventuallyForgotten under fairness) model-checks NeverPartial, NothingForeign, Prompt and Stable. Sampled on real sockets (E2E): 2-3 real ServiceDiscovery peers (sync, then tokio) advertise random instances of a unique service on the loopback multicast group; every sample of every peer's get_known_services() must consist of exactly the instances other running peers advertise (DiscoverExact, every observation), and within two seconds every running peer must list every other one and keep doing so after a third one left, in at least one of the attempts (E2EDiscovered). Ports include 0 and 65535. E2EForeign: a peer of another implementation played on a plain socket announces instances to a real ServiceDiscovery (sync, tokio); an announcement that repeats a question section is listed like one that does not.",
    "C09": "The EDNS data and the 12-bit response code must also survive the compressing serialiser: the reference decoder applied to build_bytes_vec_compressed of every OPT-carrying packet of the builder machine finds the same OPT data and rcode (CompOpt), whatever else the message holds (e.g. a non-empty authority section). The builder histories of Gen_Packet (starting from constructors and from received messages with and without OPT, then SetRcode / SetOpt / ClearOpt / flags) are replayed here too: the state after every call matches the builder model (ApiStep) and what is finally written parses back to the packet the history describes (RoundTrip) -- the response code is split from what the packet holds now, not from what was received.",
    "C17": "The alphabet includes space and newline (whitespace at the ends of a text must not be trimmed away).",
    "C18": "Opaque records are tried with five payloads (arbitrary bytes and bytes shaped like a character-string, a name, an address); a message whose record of an unknown type the library rejects is itself reported. WireCodes: all 65536 values of the QTYPE, QCLASS (under the unicast-response bit) and CLASS (under the cache-flush bit) field on the wire through Packet::parse: a supported code is shown as itself, an unsupported one rejects the message, never aliased.",
    "C20": "Every other received record of a history crosses the wire in a compressed response and enters the store through the discovery listener's own ingest function (owned copies) instead of the store API. Protocol level: Discovery.tla model-checks that an ingested goodbye removes the peer from view one second later (GoodbyeHonoured) and refutes the keep-the-later-expiry design. Sampled on real sockets (E2E): 2-3 real sync ServiceDiscovery peers find each other, one calls remove_service_from_discovery, and it must be gone from the others' get_known_services() three seconds later in at least one of the attempts (E2EGoodbye). E2EForeign: a peer of another implementation played on a plain socket announces an instance (TTL 4500) and withdraws it with TTL 0 or the cache-flush bit, in responses that also carry a question section; once listed it must be gone 2.3 s after the goodbye in at least one of four attempts.",
}
for _k, _v in EXTRA.items():
    TEXT[_k]["text"] = TEXT[_k]["text"] + " " + _v
