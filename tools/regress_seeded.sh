#!/bin/bash
# usage: tools/regress_seeded.sh <outdir> [names...]
# Re-checks every seeded change against the quick check of ITS OWN property on a scratch clone of /repo and a
# snapshot of /verif (nothing in /repo or /verif is touched).  Writes <outdir>/result.txt:
#   <name> CAUGHT | MISSED | TOOL-ERROR | PATCH-FAILED   (and EXPECTED-MISS for changes whose meta lists no check)
set -u
out="$1"; shift
names="${*:-$(ls /verif/seeded | grep -E '^C[0-9]+-')}"
rm -rf "$out"; mkdir -p "$out/logs"
git clone -q /repo "$out/repo"
rsync -a --exclude .git --exclude work --exclude replays --exclude evidence --exclude 'harness/target' /verif/ "$out/verif/"
sed -i "s#/repo/simple-dns#$out/repo/simple-dns#; s#/repo/simple-mdns#$out/repo/simple-mdns#" "$out/verif/harness/Cargo.toml"
: > "$out/result.txt"
for m in $names; do
  [ -f "/verif/seeded/$m/patch.diff" ] || continue
  id="${m%%-*}"
  # a change that lies outside its own property's quantifier is checked with the check its meta names instead
  alt=$(python3 -c "import json;m=json.load(open('/verif/seeded/$m/meta.json'));c=m['caught_by_quick_checks'];print('' if (not c or m['property'] in c) else c[0])" 2>/dev/null)
  [ -n "$alt" ] && id="$alt"
  git -C "$out/repo" checkout -q -- . && git -C "$out/repo" apply "/verif/seeded/$m/patch.diff" || { echo "$m PATCH-FAILED" >> "$out/result.txt"; continue; }
  "$out/verif/check" "$id" --tier quick > "$out/logs/$m.log" 2>&1; rc=$?
  exp=$(python3 -c "import json;print(len(json.load(open('/verif/seeded/$m/meta.json'))['caught_by_quick_checks']))" 2>/dev/null || echo 1)
  case $rc in
    1) echo "$m CAUGHT" >> "$out/result.txt" ;;
    0) if [ "$exp" = 0 ]; then echo "$m EXPECTED-MISS" >> "$out/result.txt"; else echo "$m MISSED" >> "$out/result.txt"; fi ;;
    *) echo "$m TOOL-ERROR" >> "$out/result.txt" ;;
  esac
  git -C "$out/repo" checkout -q -- .
done
rm -rf "$out/repo" "$out/verif"
echo done >> "$out/result.txt"
