#!/bin/bash
# usage: tools/process_round.sh <suffix> [ids...]   e.g. tools/process_round.sh c C01 C02
# For every /tmp/mut/<id><suffix> worktree that has MUTANT/patch.diff: verify it and run the own-property check.
suf="$1"; shift
ids="${*:-C01 C02 C03 C04 C05 C06 C07 C08 C09 C10 C11 C12 C13 C14 C15 C16 C17 C18 C19 C20}"
for id in $ids; do
  wt=/tmp/mut/$id$suf
  [ -f "$wt/MUTANT/patch.diff" ] || { echo "$id$suf: no patch yet"; continue; }
  [ -f "/verif/seeded/$id-$suf/patch.diff" ] && { echo "$id$suf: already processed"; continue; }
  v=$(/verif/tools/verify_mutant.sh "$wt" "$id-$suf" 2>&1 | tail -3 | tr '\n' ' ')
  c=$(/verif/tools/try_patch.sh "/verif/seeded/$id-$suf/patch.diff" "$id" 2>&1 | tail -2 | tr '\n' ' ')
  echo "$id-$suf | $v | $c" | cut -c1-700
done
