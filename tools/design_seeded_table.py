#!/usr/bin/env python3
"""regenerates the table of seeded changes in DESIGN.md (between its heading and Appendix A) from seeded/*/meta.json"""
import glob, json, os
p = '/verif/DESIGN.md'
s = open(p).read()
rows = []
rounds = set()
for d in sorted(glob.glob('/verif/seeded/C*-*')):
    m = json.load(open(d + '/meta.json'))
    name = os.path.basename(d)
    rounds.add(name.split('-')[1])
    needs = m['needs_to_manifest']
    caught = m['caught_by_quick_checks']
    own = m['property'] in caught
    if 'MISSED' in needs:
        first = 'missed → generator / observation strengthened'
    elif not caught:
        first = 'not a violation of a listed property (see meta.json)'
    elif not own:
        first = "outside its own property's quantifier; caught by " + ' '.join(caught)
    else:
        first = 'caught'
    rows.append(f"| {name} | {m['change'][:160]} | {first} | {' '.join(caught) or '—'} |")
n = len(rows)
nm = sum('missed' in r for r in rows)
i = s.index('| change | what it does | first run of its own check | caught by (quick) |')
j = s.index('Cross-property kill matrix')
table = '| change | what it does | first run of its own check | caught by (quick) |\n|---|---|---|---|\n' + "\n".join(rows) + "\n\n"
s = s[:i] + table + s[j:]
import re
s = re.sub(r"Of the \d+ changes, \d+ were \*\*missed by the first run\*\*", f"Of the {n} changes, {nm} were **missed by the first run**", s)
s = re.sub(r"\w+ rounds \(a–\w\) of 20 changes each", f"{ {4:'Four',5:'Five',6:'Six',7:'Seven'}.get(len(rounds), str(len(rounds))) } rounds (a–{sorted(rounds)[-1]}) of 20 changes each", s)
open(p, 'w').write(s)
print(n, nm)
