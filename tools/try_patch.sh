#!/bin/bash
# usage: tools/try_patch.sh <patch.diff> [check ids...]   (default: all)
# Applies the patch to /repo, runs the quick checks, reports which raise VIOLATION, reverts the patch.
set -u
patch="$1"; shift
ids="${*:-C01 C02 C03 C04 C05 C06 C07 C08 C09 C10 C11 C12 C13 C14 C15 C16 C17 C18 C19 C20}"
cd /repo || exit 2
if ! git diff --quiet; then echo "/repo has uncommitted changes" >&2; exit 2; fi
git apply "$patch" || { echo "patch does not apply" >&2; exit 2; }
trap 'git -C /repo checkout -- . >/dev/null 2>&1' EXIT
cd /verif
caught=""
for id in $ids; do
  out=$(./check "$id" --tier quick 2>&1); rc=$?
  n=$(printf '%s\n' "$out" | grep -c '^VIOLATION')
  printf '%s rc=%s violations=%s %s\n' "$id" "$rc" "$n" "$(printf '%s\n' "$out" | grep -m1 'rule=' | cut -c1-160)"
  [ "$rc" = 1 ] && caught="$caught $id"
  [ "$rc" = 2 ] && printf '%s\n' "$out" | tail -5
done
echo "CAUGHT-BY:$caught"
