#!/usr/bin/env python3
"""writes /verif/seeded/<name>/meta.json from the table below (maintained by hand after each batch)"""
import json, os
T = {
 "C01-a": ("C01", "Name::parse: name_size only counts labels read in place, not those reached through a pointer", "a label run longer than 255 bytes hidden in opaque RDATA, referenced by many 2-byte pointer names (heap / time blow-up); first run of the check MISSED it, family 'label-run-in-rdata' added and HeapBound tightened to 1024n+64K", ["C01", "C06"]),
 "C02-a": ("C02", "Packet::parse removes the OPT record with swap_remove", "a packet with EDNS data and >= 2 additional records: the additional section comes back rotated", ["C02"]),
 "C03-a": ("C03", "compress_append reads the stream position / checks the 14-bit limit once per name", "a multi-label name straddling offset 16383 and a later name sharing only its late suffix; first run MISSED it, names sharing only a late suffix added to the large recipes", ["C03", "C07"]),
 "C04-a": ("C04", "OPT::write_to uses write instead of write_all for option data", "EDNS option with payload as the last thing written into a fixed-size writer whose capacity ends inside the payload: Ok(()) with a truncated message", ["C04"]),
 "C05-a": ("C05", "OPT::parse stops its option loop when fewer than 4 bytes remain instead of rejecting", "an OPT record whose RDLENGTH leaves 1-3 surplus bytes, followed by another record", ["C05"]),
 "C06-a": ("C06", "same change as C01-a (name_size not counted behind pointers)", "a name expanding to > 255 bytes through a pointer while its in-place part is shorter", ["C06", "C01"]),
 "C07-a": ("C07", "same idea as C03-a: offset/limit evaluated once per name in compress_append", "name straddling 16383 + later name sharing the late suffix -> pointer into the header; first run MISSED it (same strengthening as C03-a)", ["C07", "C03"]),
 "C08-a": ("C08", "Header::remove_flags implemented as XOR", "removing a flag that is not currently set", ["C08"]),
 "C09-a": ("C09", "extended rcode extracted as ttl >> 20 (version nibble leaks into the rcode)", "parsed OPT with EDNS version >= 16", ["C09"]),
 "C10-a": ("C10", "IPSECKEY::parse IPv6 gateway bound uses <= instead of <", "IPSECKEY with IPv6 gateway and empty public key", ["C10"]),
 "C11-a": ("C11", "Header::get_flags ORs the unmasked 12-bit rcode into the flags word", "re-serialising a parsed message whose OPT carries a non-zero extended rcode (BADVERS ...)", ["C11"]),
 "C12-a": ("C12", "Debug for CharacterString truncates the rendering at byte 64", "a character-string longer than 64 bytes with a multi-byte character (or U+FFFD rendering) across byte 64", ["C12"]),
 "C13-a": ("C13", "build_reply looks up SRV-target address records with subdomains", "an SRV answer plus an authoritative address record strictly below its target; first run MISSED it, generator biased to the SRV neighbourhood and to registered names, ImplAdditionals added to MC_Store", ["C13"]),
 "C14-a": ("C14", "responder_loop propagates the header-peek error with ? (thread exits)", "a datagram shorter than 4 bytes on the real socket; not visible in the pure pipeline: first run MISSED it, the sampled socket run got before/after probes with a control responder", ["C14"]),
 "C15-a": ("C15", "ip_addr_to_resource_record matches on addr.to_canonical()", "an instance holding an IPv4-mapped IPv6 address (::ffff:a.b.c.d): advertised as an A record; first run MISSED it (address domain had no v4-mapped address), domain extended and IPv6 addresses now projected with all 16 bytes", ["C15"]),
 "C16-a": ("C16", "Name equality made ASCII-case-insensitive while Hash stays case-sensitive", "two names differing only in letter case", ["C16"]),
 "C17-a": ("C17", "Label::is_valid_label checks the last-character rule on data[1..]", "a label that is exactly '_'", ["C17"]),
 "C18-a": ("C18", "match_qtype counts MINFO in the MAILB group", "a MINFO record against a MAILB question", ["C18"]),
 "C19-a": ("C19", "String::try_from(TXT) decodes each character-string as UTF-8 separately", "text longer than 254 bytes with a multi-byte character straddling a multiple of 254", ["C19"]),
 "C20-a": ("C20", "add_cached_resource keeps the later of the old and new expiry", "a cached record received again with a shorter TTL / cache-flush, then queried after the shorter TTL; first runs MISSED it, expiry histories now work on a 4-record catalogue and prefer re-receiving and querying already cached records", ["C20"]),
 "C02-b": ("C02", "SVCB::parse returns right after the target when priority is 0 (AliasMode), dropping the SvcParams", "an SVCB/HTTPS record with priority 0 and at least one parameter", ["C02"]),
 "C04-b": ("C04", "ISDN::write_to skips an empty subaddress while len() still counts it", "an ISDN record with an empty sa written through a plain entry point: RDLENGTH one larger than the RDATA", ["C04"]),
 "C05-b": ("C05", "parse_section iterates over the count clamped to the remaining bytes", "a section with non-zero count that starts exactly at the end of the message: accepted with fewer entries", ["C05"]),
 "C07-b": ("C07", "IPSECKEY gets a write_compressed_to that compresses a domain-name gateway", "IPSECKEY with gateway type 3 whose name suffix was written earlier, compressed output", ["C07"]),
 "C10-b": ("C10", "ZONEMD scheme and hash-algorithm bytes swapped in both parse and write_to (self-consistent)", "a ZONEMD record whose scheme differs from its algorithm compared with an independent encoding", ["C10"]),
 "C11-b": ("C11", "Packet::parse lifts the LAST OPT record (rposition) while the writer emits the header OPT first", "a message with two different OPT records in the additional section; first run MISSED it, Gen_Edns now also generates two-OPT messages", ["C11"]),
 "C13-b": ("C13", "Hash for ResourceRecord includes the cache-flush bit while PartialEq ignores it", "the same record registered / removed / received with different cache-flush bits: stale or duplicate store entries; first run MISSED it, Gen_Store now varies the cache-flush bit and TTL on registrations and removals and removes mostly registered records", ["C13"]),
 "C15-b": ("C15", "add_response_to_resources applies the subdomain filter to the answer section only", "a genuine peer's packet whose ADDITIONAL section holds records of foreign names, with an on_discovery channel; first run MISSED it, announcement kind 'instance+foreign' added", ["C15"]),
 "C16-b": ("C16", "ResourceRecord::into_owned rebuilds the record with new(), losing cache_flush", "into_owned of a record with the cache-flush bit set (== ignores the bit; projection and bytes differ)", ["C16"]),
 "C20-b": ("C20", "remove_resource_record drops the whole node when the domain holds exactly one record", "removing a record that is not in the store from a name holding exactly one other record", ["C20"]),
 "C01-b": ("C01", "IPSECKEY::parse shares one 4-byte length check between the IPv4 and IPv6 gateway branches", "IPSECKEY with IPv6 gateway and RDLENGTH 7..18: slice panic", ["C01"]),
 "C03-b": ("C03", "Name::parse charges every followed pointer against the 255-byte name limit", "a name at (or a few bytes below) the 255-byte maximum written with a compression pointer: compressed output no longer parses", ["C03"]),
 "C06-b": ("C06", "Name::parse replaces the following-pointer flag by the test pointer_position == *position", "a pointer whose target label ends on the pointer's own first byte, so the walk comes back to first_pointer+1: wrong resume cursor; caught only by 2 random buffers at first, self-overlap families and denser short random buffers added", ["C06"]),
 "C08-b": ("C08", "Header::get_flags masks the rcode only on the Reserved path", "building a packet with RCODE::BADVERS (16): bit 4 (CD) set on the wire", ["C08"]),
 "C09-b": ("C09", "OPT::parse option loop uses < instead of <= and stops with exactly 4 bytes left", "an OPT whose last option has an empty value: option dropped, following records misparsed", ["C09"]),
 "C12-b": ("C12", "CharacterString::internal_new rejects 255-byte strings and into_owned expects it to succeed", "into_owned of a parsed record holding a character-string of exactly 255 bytes", ["C12"]),
 "C14-b": ("C14", "ExpirationInfo::new computes ttl * 8 / 10 in u32", "a response record with TTL >= 0x20000000 ingested by the discovery listener: overflow panic under the write lock", ["C14"]),
 "C17-b": ("C17", "Name::new limits the length of the input text instead of the encoded name", "names right at the 255-byte limit, or short names padded with many dots", ["C17"]),
 "C18-b": ("C18", "CLASS::try_from strips the top bit (moved there from the record parser)", "class codes 0x8001-0x8004, 0x80FE: accepted and aliased to IN/CS/CH/HS/NONE", ["C18"]),
 "C19-b": ("C19", "long_attributes splits with closures comparing c as u8 (the pinned tree's original defect re-introduced)", "text containing U+013B / U+013D / U+043B ...", ["C19"]),
}
for name, (prop, change, needs, caught) in T.items():
    d = f"/verif/seeded/{name}"
    if not os.path.isdir(d):
        continue
    crate = open(d + "/crate.txt").read().strip() if os.path.exists(d + "/crate.txt") else "simple-dns"
    json.dump({
        "property": prop, "change": change, "needs_to_manifest": needs,
        "written_by": "independent sub-agent given only the property text and a scratch worktree",
        "confirmed": {
            "how": "tools/verify_mutant.sh: patch applied in a scratch worktree at /repo HEAD; cargo build --workspace --all-features --offline; cargo test --workspace --offline --no-fail-fast (existing tests, all pass); demo.rs copied to <crate>/tests/mutant_demo.rs fails with the change and passes without",
            "demo_crate": crate,
        },
        "checked_with": "tools/try_patch.sh <patch> (git apply to /repo, ./check <id> --tier quick, git checkout -- .)",
        "caught_by_quick_checks": caught,
    }, open(d + "/meta.json", "w"), indent=1)
print("ok")
