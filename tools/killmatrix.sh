#!/bin/bash
# usage: tools/killmatrix.sh <outdir> [mutant names...]     (default: all of /verif/seeded)
# Runs every quick check against every seeded change on a SCRATCH COPY of the repository (so /repo,
# evidence/ and replays/ are untouched and this can run in the background).  Writes <outdir>/matrix.txt.
set -u
out="$1"; shift
names="${*:-$(ls /verif/seeded)}"
rm -rf "$out"; mkdir -p "$out"
git clone -q /repo "$out/repo"
mkdir -p "$out/harness" && cp -r /verif/harness/src /verif/harness/Cargo.toml /verif/harness/Cargo.lock /verif/harness/.cargo "$out/harness/"
sed -i "s#/repo/simple-dns#$out/repo/simple-dns#; s#/repo/simple-mdns#$out/repo/simple-mdns#" "$out/harness/Cargo.toml"
export VERIF_HARNESS="$out/harness" VERIF_OUT="$out/out"
ids="C01 C02 C03 C04 C05 C06 C07 C08 C09 C10 C11 C12 C13 C14 C15 C16 C17 C18 C19 C20"
: > "$out/matrix.txt"
for m in $names; do
  [ -f "/verif/seeded/$m/patch.diff" ] || continue
  git -C "$out/repo" checkout -q -- . && git -C "$out/repo" apply "/verif/seeded/$m/patch.diff" || { echo "$m PATCH-FAILED" >> "$out/matrix.txt"; continue; }
  caught=""
  for id in $ids; do
    /verif/check "$id" --tier quick > "$out/$m-$id.log" 2>&1; rc=$?
    [ "$rc" = 1 ] && caught="$caught $id"
    [ "$rc" = 2 ] && caught="$caught $id(tool-error)"
  done
  echo "$m:$caught" >> "$out/matrix.txt"
  git -C "$out/repo" checkout -q -- .
done
rm -rf "$out/repo" "$out/harness" "$out/out"
echo done >> "$out/matrix.txt"
