#!/bin/bash
# usage: tools/killmatrix.sh <outdir> [mutant names...]     (default: all of /verif/seeded)
# Runs every quick check against every seeded change on a SCRATCH COPY of the repository and a SNAPSHOT of
# /verif (so /repo, evidence/, replays/ are untouched and later edits do not disturb the run; can run in
# the background).  Writes <outdir>/matrix.txt and one log per (mutant, check).
set -u
out="$1"; shift
names="${*:-$(ls /verif/seeded)}"
rm -rf "$out"; mkdir -p "$out/logs"
git clone -q /repo "$out/repo"
rsync -a --exclude .git --exclude work --exclude replays --exclude evidence --exclude 'harness/target' /verif/ "$out/verif/"
sed -i "s#/repo/simple-dns#$out/repo/simple-dns#; s#/repo/simple-mdns#$out/repo/simple-mdns#" "$out/verif/harness/Cargo.toml"
ids="C01 C02 C03 C04 C05 C06 C07 C08 C09 C10 C11 C12 C13 C14 C15 C16 C17 C18 C19 C20"
: > "$out/matrix.txt"
# baseline on the unchanged copy: anything that fails here is noise, not a kill
base=""
for id in $ids; do "$out/verif/check" "$id" --tier quick > "$out/logs/base-$id.log" 2>&1 || base="$base $id"; done
echo "BASELINE-FAILING:$base" >> "$out/matrix.txt"
for m in $names; do
  [ -f "/verif/seeded/$m/patch.diff" ] || continue
  git -C "$out/repo" checkout -q -- . && git -C "$out/repo" apply "/verif/seeded/$m/patch.diff" || { echo "$m PATCH-FAILED" >> "$out/matrix.txt"; continue; }
  caught=""
  for id in $ids; do
    "$out/verif/check" "$id" --tier quick > "$out/logs/$m-$id.log" 2>&1; rc=$?
    [ "$rc" = 1 ] && caught="$caught $id"
    [ "$rc" = 2 ] && caught="$caught $id(tool-error)"
  done
  echo "$m:$caught" >> "$out/matrix.txt"
  git -C "$out/repo" checkout -q -- .
done
rm -rf "$out/repo" "$out/verif"
echo done >> "$out/matrix.txt"
