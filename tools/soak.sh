#!/bin/bash
# usage: tools/soak.sh <outdir> <seed> [<seed> ...]
# Runs every quick check on the UNCHANGED tree with other seeds, on a snapshot of /verif (evidence/, replays/ and
# work/ of /verif are untouched).  Any line in <outdir>/result.txt other than "rc=0" is a false alarm or a tool error.
set -u
out="$1"; shift
rm -rf "$out"; mkdir -p "$out/logs"
git clone -q /repo "$out/repo"      # a clone: /repo itself may have a seeded change applied while this runs
rsync -a --exclude .git --exclude work --exclude replays --exclude evidence --exclude 'harness/target' /verif/ "$out/verif/"
sed -i "s#/repo/simple-dns#$out/repo/simple-dns#; s#/repo/simple-mdns#$out/repo/simple-mdns#" "$out/verif/harness/Cargo.toml"
: > "$out/result.txt"
for seed in "$@"; do
  for id in ${IDS:-C01 C02 C03 C04 C05 C06 C07 C08 C09 C10 C11 C12 C13 C14 C15 C16 C17 C18 C19 C20}; do
    VERIF_SEED=$seed "$out/verif/check" "$id" --tier "${TIER:-quick}" --seed "$seed" > "$out/logs/$id-$seed.log" 2>&1; rc=$?
    echo "seed=$seed $id rc=$rc $(tail -1 "$out/logs/$id-$seed.log" | cut -c1-120)" >> "$out/result.txt"
  done
done
rm -rf "$out/verif" "$out/repo"
echo done >> "$out/result.txt"
