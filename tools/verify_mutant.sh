#!/bin/bash
# usage: tools/verify_mutant.sh <worktree> <name>
# Confirms: patch applies to a clean checkout, workspace builds, existing tests pass with the change,
# demo fails with the change and passes without.  Then stores it under /verif/seeded/<name>/.
set -u
wt="$1"; name="$2"
cd "$wt" || exit 2
crate=simple-dns; feat=""
if grep -qi "simple-mdns/tests" MUTANT/README.md; then crate=simple-mdns; feat="--features sync"; fi
if [ "$crate" = simple-mdns ] && grep -qi "async-tokio" MUTANT/README.md; then feat="--features sync,async-tokio"; fi
git checkout -q -- . 2>/dev/null
git checkout -q --detach "$(git -C /repo rev-parse HEAD)"
git apply MUTANT/patch.diff || { echo "PATCH-DOES-NOT-APPLY"; exit 1; }
build=$(cargo build --workspace --all-features --offline 2>&1 | grep -c "^error")
tests=$(cargo test --workspace --offline --no-fail-fast 2>&1 | grep -E "^test result" | grep -vc "ok\.")
cp MUTANT/demo.rs $crate/tests/mutant_demo.rs
# the demo itself is part of the workspace run above; run it alone for the verdict
with=$(cargo test --offline -p $crate $feat --test mutant_demo 2>&1 | grep -E "^test result" | head -1)
git apply -R MUTANT/patch.diff
without=$(cargo test --offline -p $crate $feat --test mutant_demo 2>&1 | grep -E "^test result" | head -1)
rm -f $crate/tests/mutant_demo.rs
echo "build_errors=$build failing_existing_test_binaries_with_change=$tests"
echo "demo with change:    $with"
echo "demo without change: $without"
mkdir -p /verif/seeded/$name
cp MUTANT/patch.diff MUTANT/demo.rs MUTANT/README.md /verif/seeded/$name/
echo "$crate" > /verif/seeded/$name/crate.txt
